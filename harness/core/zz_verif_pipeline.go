package core

import (
	"strings"

	"github.com/jsightapi/jsight-schema-go-library/fs"

	"github.com/jsightapi/jsight-api-go-library/catalog"
	"github.com/jsightapi/jsight-api-go-library/internal/verifrt"
	"github.com/jsightapi/jsight-api-go-library/jerr"
)

// ---- L-doc: documents assembled from directive-line templates ----
//
// A document is a sequence of lines chosen from a menu. Names and path
// segments inside a line are symbolic bytes from a two-letter alphabet, so
// "same name or not" is decided by the code's own comparisons and the solver,
// not by the harness. Only schema-free notations (any / empty) are used, so the
// whole real pipeline runs: scanner, context resolution, macro expansion,
// catalog building, validation. encoding/json is not part of it.

const (
	tJsight = iota
	tInfo
	tTitle
	tVersion
	tServer
	tBaseURL
	tURL
	tGet
	tPost
	tGetPath
	tRequestAny
	tResp200
	tResp404
	tBodyAny
	tTypeAny
	tMacro
	tPaste
	tTag
	tTags
	tProtocol
	tMethod
	tDescription
	tCount
	// templates with schema bodies (need the schema library: harness option full_schema_lib)
	tEnum = iota
	tTypeObj
	tTypeAllOf
	tRespRef
	tURLParam
	tPathDir
	tRequestObj
	tTypeNested
	tRespBare   // "201": a response without parameter (its body comes from a Body child)
	tTitleBlank // Title "  ": a title made of blanks only
	tHeaders    // Headers with an object body (schema library)
	tRespArr    // 200 [@l]: array of a user type (schema library)
	tEnumNoName // directives written without their required name
	tServerNoName
	tTypeNoName
	tTagNoName
	tPasteNoName
	tTagsNoName
	tMethodNoName
	tOpen           // "(" on its own line: explicit context of the previous directive
	tClose          // ")" on its own line
	tIncludeFile    // INCLUDE inc.jst (present in the virtual file system of harnesses that set verifFiles)
	tIncludeMissing // INCLUDE nofile.jst
	tParams         // Params with an object body (JSON-RPC)
	tResult         // Result with an object body holding a reference to a user type (JSON-RPC)
	tPathX          // Path {"x": 1}
	tPathY          // Path {"y": "s"}
	tGetXYZ         // GET /a/{x}/{y}/z : a method with its own, longer path
	tURLParam2      // URL /a/{x}/{y}
	tGetNm          // GET /l/{nm}/x : same first segment as URL /l/{id}, another parameter name
	tTypeRegex      // TYPE @l regex /[ab]{3}/ : a regex type with more than one match
	tRespObjRef     // 200 {"n": @l} : an object whose property is a user type (its example embeds an example of the type)
	tPathRefT       // Path @l : a Path body that is a bare reference to a user type
	tTypeRefT       // TYPE @l = @next(l) : a type whose body is a bare reference to another type
	tTypeIdObj      // TYPE @l {"id": 1}
)

var verifTplNames = []string{"JSIGHT", "INFO", "Title", "Version", "SERVER", "BaseUrl", "URL", "GET", "POST", "GET /p", "Request any",
	"200 any", "404 any", "Body any", "TYPE any", "MACRO", "PASTE", "TAG", "Tags", "Protocol", "Method", "Description"}

// verifLetters is the size of the name alphabet: {a,b} or {a,b,c}.
var verifLetters = 2

func verifLetter(name string) string {
	b := verifrt.Byte(name)
	if verifLetters >= 3 {
		verifrt.Assume(b == 'a' || b == 'b' || b == 'c')
	} else {
		verifrt.Assume(b == 'a' || b == 'b')
	}
	return string([]byte{b})
}

// verifLine renders one template line (without the line end) and the symbolic letter it contains, if any.
func verifLine(t int) (string, string) {
	l := ""
	switch t {
	case tServer, tURL, tGetPath, tTypeAny, tMacro, tPaste, tTag, tTags, tMethod, tDescription, tEnum, tTypeObj, tTypeAllOf, tRespRef, tURLParam, tTypeNested, tRespArr, tResult, tGetNm, tTypeRegex, tRespObjRef, tPathRefT, tTypeRefT, tTypeIdObj:
		l = verifLetter("l")
	}
	return verifLineWith(t, l), l
}

func verifLineWith(t int, l string) string {
	switch t {
	case tJsight:
		return "JSIGHT 0.3"
	case tInfo:
		return "INFO"
	case tTitle:
		return "Title \"T\""
	case tVersion:
		return "Version 1"
	case tServer:
		return "SERVER @" + l + " // s"
	case tBaseURL:
		return "BaseUrl \"http://x\""
	case tURL:
		return "URL /" + l
	case tGet:
		return "GET"
	case tPost:
		return "POST // p"
	case tGetPath:
		return "GET /" + l
	case tRequestAny:
		return "Request any"
	case tResp200:
		return "200 any // ok"
	case tResp404:
		return "404 empty"
	case tBodyAny:
		return "Body any"
	case tTypeAny:
		return "TYPE @" + l + " any // t"
	case tMacro:
		return "MACRO @" + l
	case tPaste:
		return "PASTE @" + l
	case tTag:
		return "TAG @" + l + " // tt"
	case tTags:
		return "Tags @" + l
	case tProtocol:
		return "Protocol json-rpc-2.0"
	case tMethod:
		return "Method m" + l
	case tDescription:
		return "Description\n  text " + l
	case tEnum:
		return "ENUM @" + l + " // e\n[1, \"two\"]"
	case tTypeObj:
		return "TYPE @" + l + "\n{\"k" + l + "\": 1}"
	case tTypeAllOf:
		// inherits from the "next" type name: a -> b -> c -> a
		next := "b"
		if l == "b" {
			next = "c"
		} else if l == "c" {
			next = "a"
		}
		return "TYPE @" + l + "\n{ // {allOf: \"@" + next + "\"}\n  \"own" + l + "\": { // {allOf: \"@" + next + "\"}\n    \"n" + l + "\": 1\n  }\n}"
	case tTypeNested:
		// no allOf on the root object, one on a nested object
		next := "b"
		if l == "b" {
			next = "c"
		} else if l == "c" {
			next = "a"
		}
		return "TYPE @" + l + "\n{\n  \"nest" + l + "\": { // {allOf: \"@" + next + "\"}\n    \"m" + l + "\": 1\n  }\n}"
	case tRespBare:
		return "201"
	case tTitleBlank:
		return "Title \"  \""
	case tHeaders:
		return "Headers\n{\"h\": 1}"
	case tRespArr:
		return "200 [@" + l + "]"
	case tEnumNoName:
		return "ENUM\n[1, 2]"
	case tServerNoName:
		return "SERVER"
	case tTypeNoName:
		return "TYPE any"
	case tTagNoName:
		return "TAG"
	case tPasteNoName:
		return "PASTE"
	case tTagsNoName:
		return "Tags"
	case tMethodNoName:
		return "Method"
	case tOpen:
		return "("
	case tClose:
		return ")"
	case tIncludeFile:
		return "INCLUDE inc.jst"
	case tIncludeMissing:
		return "INCLUDE nofile.jst"
	case tRespRef:
		return "200 @" + l
	case tURLParam:
		return "URL /" + l + "/{id}"
	case tPathDir:
		return "Path\n{\"id\": 1}"
	case tRequestObj:
		return "Request\n{\"r\": 1}"
	case tPathX:
		return "Path\n{\"x\": 1}"
	case tPathY:
		return "Path\n{\"y\": \"s\"}"
	case tGetXYZ:
		return "GET /a/{x}/{y}/z"
	case tURLParam2:
		return "URL /a/{x}/{y}"
	case tGetNm:
		return "GET /" + l + "/{nm}/x"
	case tTypeRegex:
		return "TYPE @" + l + " regex\n/[ab]{3}/"
	case tRespObjRef:
		return "200\n{\"n\": @" + l + "}"
	case tPathRefT:
		return "Path\n@" + l
	case tTypeRefT:
		next := map[string]string{"a": "b", "b": "c", "c": "a"}[l]
		return "TYPE @" + l + "\n@" + next
	case tTypeIdObj:
		return "TYPE @" + l + "\n{\"id\": 1}"
	case tParams:
		return "Params\n{\"p\": 1}"
	case tResult:
		return "Result\n{\"r\": @" + l + "}"
	}
	return ""
}

// verifDoc picks k lines from menu.
func verifDoc(menu []int, k int) (text string, tpls []int) {
	text, lines := verifDocLines(menu, k, false)
	for _, ln := range lines {
		tpls = append(tpls, ln.t)
	}
	return text, tpls
}

type refLine struct {
	t      int
	letter string
	parent int
}

// verifDocLines picks k lines from menu; with header the document starts with "JSIGHT 0.3".
func verifDocLines(menu []int, k int, header bool) (text string, lines []refLine) {
	if header {
		text = "JSIGHT 0.3\n"
		lines = append(lines, refLine{t: tJsight, parent: -1})
	}
	for i := 0; i < k; i++ {
		t := menu[verifrt.Choice("line", len(menu))]
		txt, l := verifLine(t)
		lines = append(lines, refLine{t: t, letter: l, parent: -1})
		text += txt + "\n"
	}
	return
}

// verifBareResponsesWellFormed: a response without parameter is followed by a
// schema body unless the next line starts with B, H, P or I; the template model
// only covers the latter (Body / Headers children).
func verifBareResponsesWellFormed(lines []refLine) bool {
	for i, ln := range lines {
		if ln.t == tRespBare {
			if i+1 >= len(lines) || (lines[i+1].t != tBodyAny && lines[i+1].t != tHeaders) {
				return false
			}
		}
	}
	return true
}

func verifRender(lines []refLine) string {
	text := ""
	for _, ln := range lines {
		text += verifLineWith(ln.t, ln.letter) + "\n"
	}
	return text
}

func verifRun(text string, oo ...Option) (*JApiCore, *jerr.JApiError) {
	core := NewJApiCore(fs.NewFile(verifDir+"/root.jst", text), oo...)
	je := core.ValidateJAPI()
	return core, je
}

// verifSig renders the catalog's structure as a list of lines (the observable
// content of the JSON without going through encoding/json).
func verifSig(c *catalog.Catalog) []string {
	var out []string
	out = append(out, "jsight="+c.JSightVersion)
	if c.Info != nil {
		out = append(out, "info title="+c.Info.Title+" version="+c.Info.Version)
		if c.Info.Description != nil {
			out = append(out, "info description="+*c.Info.Description)
		}
	}
	c.Servers.EachSafe(func(k string, v *catalog.Server) {
		out = append(out, "server "+k+" annotation="+v.Annotation+" base="+v.BaseUrl)
	})
	c.UserTypes.EachSafe(func(k string, v *catalog.UserType) {
		out = append(out, "type "+k+" annotation="+v.Annotation+" notation="+string(v.Schema.Notation))
		out = append(out, verifSchemaSig("type "+k, &v.Schema)...)
	})
	c.UserEnums.EachSafe(func(k string, v *catalog.UserRule) {
		out = append(out, "enum "+k+" annotation="+v.Annotation)
		out = append(out, verifRuleSig("enum "+k, v.Value)...)
	})
	c.Tags.EachSafe(func(k catalog.TagName, v *catalog.Tag) {
		line := "tag " + string(k) + " title=" + v.Title
		if v.Description != nil {
			line += " description=" + *v.Description
		}
		out = append(out, line)
		for _, proto := range []catalog.Protocol{catalog.HTTP, catalog.JsonRpc} {
			if g, ok := v.InteractionGroups[proto]; ok {
				for _, id := range verifGroupIDs(g) {
					out = append(out, "tag "+string(k)+" has "+id)
				}
			}
		}
	})
	c.Interactions.EachSafe(func(k catalog.InteractionID, v catalog.Interaction) {
		out = append(out, "interaction "+k.String())
		switch in := v.(type) {
		case *catalog.HTTPInteraction:
			out = append(out, " id="+in.Id+" method="+in.HttpMethod.String()+" path="+string(in.PathVal)+" annotation="+verifStr(in.Annotation))
			if in.Description != nil {
				out = append(out, " description="+*in.Description)
			}
			for _, t := range in.Tags {
				out = append(out, " tag="+string(t))
			}
			if in.PathVariables != nil {
				out = append(out, verifSchemaSig(" pathVariables", &in.PathVariables.Schema)...)
			}
			if in.Request != nil {
				line := " request"
				if in.Request.HTTPRequestBody != nil {
					line += " body format=" + string(in.Request.HTTPRequestBody.Format) + " notation=" + string(in.Request.HTTPRequestBody.Schema.Notation)
				}
				out = append(out, line)
				if in.Request.HTTPRequestBody != nil {
					out = append(out, verifSchemaSig(" request", in.Request.HTTPRequestBody.Schema)...)
				}
			}
			for _, r := range in.Responses {
				line := " response " + r.Code + " annotation=" + r.Annotation
				if r.Body != nil {
					line += " body format=" + string(r.Body.Format) + " notation=" + string(r.Body.Schema.Notation)
				}
				if r.Headers != nil {
					line += " headers"
				}
				out = append(out, line)
				if r.Headers != nil {
					out = append(out, verifSchemaSig(" response "+r.Code+" headers", r.Headers.Schema)...)
				}
				if r.Body != nil {
					out = append(out, verifSchemaSig(" response "+r.Code, r.Body.Schema)...)
				}
			}
		case *catalog.JsonRpcInteraction:
			out = append(out, " id="+in.Id+" method="+in.Method+" path="+string(in.PathVal)+" annotation="+verifStr(in.Annotation))
			for _, t := range in.Tags {
				out = append(out, " tag="+string(t))
			}
			if in.Params != nil {
				out = append(out, " params")
				out = append(out, verifSchemaSig(" params", in.Params.Schema)...)
			}
			if in.Result != nil {
				out = append(out, " result")
				out = append(out, verifSchemaSig(" result", in.Result.Schema)...)
			}
		}
	})
	return out
}

// verifRuleSig renders an enum's value tree.
func verifRuleSig(prefix string, r catalog.Rule) []string {
	out := []string{prefix + " rule key=" + r.Key + " token=" + string(r.TokenType) + " value=" + r.ScalarValue}
	for _, ch := range r.Children {
		out = append(out, verifRuleSig(prefix+"/", ch)...)
	}
	return out
}

func verifStr(p *string) string {
	if p == nil {
		return "<nil>"
	}
	return *p
}

func verifSameSig(a, b []string) bool {
	if len(a) != len(b) {
		return false
	}
	for i := range a {
		if a[i] != b[i] {
			return false
		}
	}
	return true
}

func verifGroupIDs(g catalog.TagInteractionGroup) []string {
	var out []string
	switch gg := g.(type) {
	case *catalog.TagHTTPInteractionGroup:
		for _, id := range gg.Interactions {
			out = append(out, id.String())
		}
	case *catalog.TagJsonRpcInteractionGroup:
		for _, id := range gg.Interactions {
			out = append(out, id.String())
		}
	}
	return out
}

// VerifH_PipelineTotal (C01.5): the whole pipeline on every document of K
// lines from the full menu never faults and yields an error or a catalog.
func VerifH_PipelineTotal() {
	k := verifrt.Bound("K")
	menu := make([]int, 0, tCount)
	for t := 0; t < tCount; t++ {
		menu = append(menu, t)
	}
	header := false
	if verifrt.Bound("MENU") == 1 {
		// schema-bearing documents, real schema library
		verifLetters = 3
		header = true
		menu = []int{tEnum, tTypeObj, tTypeAllOf, tTypeNested, tGetPath, tRespRef, tURLParam, tPathDir, tRequestObj, tMacro, tPaste}
	}
	var text string
	if verifrt.Bound("MENU") == 2 {
		// chains of type references: a Path body that is a reference to a type that is a reference to a
		// type ... (also cyclic), under a fixed "URL /a/{id}"
		verifLetters = 3
		_, more := verifDocLines([]int{tPathRefT, tTypeRefT, tTypeIdObj, tGet}, k, false)
		text = verifRender(append([]refLine{{t: tJsight, parent: -1}, {t: tURLParam, letter: "a", parent: -1}}, more...))
	} else {
		text, _ = verifDocLines(menu, k, header)
	}
	verifrt.Note("doc", text)
	core, je := verifRun(text)
	if je != nil {
		f := jerr.VerifFileOf(je)
		verifrt.Assert("C02.pipeline.error-in-file", f != nil && int(je.Index()) <= len(f.Content()))
		// a Go runtime fault must never come back dressed up as a diagnostic (the recover() sites
		// around the schema library turn every panic that is an error into an error)
		verifrt.Assert("C01.pipeline.no-runtime-fault-as-diagnostic", !strings.Contains(je.Msg, "runtime error"))
		verifrt.Reach("C01.pipeline.rejected", true)
		return
	}
	sig := verifSig(core.catalog)
	verifrt.Reach("C01.pipeline.accepted", len(sig) > 1)
}

var verifMenuStructure = []int{tInfo, tTitle, tVersion, tServer, tBaseURL, tURL, tGet, tPost, tGetPath, tRequestAny,
	tResp200, tResp404, tTypeAny, tTag, tTags, tProtocol, tMethod, tDescription}

// a menu focused on tags: declared tags, URL-level and method-level Tags, several methods
var verifMenuTags = []int{tTag, tURL, tTags, tGet, tPost, tGetPath}

// VerifH_CatalogStructure (C04, C19b, C09c-e): every accepted macro-free
// document of "JSIGHT 0.3" + K lines yields exactly the catalog the reference
// model reads off the document: info, servers, types, tags (declared first,
// automatic ones per first path segment), interactions in source order with
// id, method, path, annotation, description, tags, request and responses, and
// the mutual tag <-> interaction references.
func VerifH_CatalogStructure() {
	k := verifrt.Bound("K")
	menu := verifMenuStructure
	if verifrt.Bound("MENU") >= 1 {
		menu = verifMenuTags
	}
	if verifrt.Bound("MENU") == 2 {
		// with explicit parentheses: a URL-level Tags may then follow a (closed) method
		menu = []int{tURL, tTags, tGet, tPost, tOpen, tClose}
	}
	if verifrt.Bound("MENU") == 3 {
		// responses with repeated codes, bodies as children, headers (schema library for the Headers body)
		menu = []int{tGetPath, tResp200, tResp404, tRespBare, tBodyAny, tHeaders}
	}
	if verifrt.Bound("MENU") == 4 {
		// schema-bearing declarations through the real schema library: object types, enums, responses that are
		// a reference / an array of references, an object request, JSON-RPC methods with Params and Result
		menu = []int{tTypeObj, tEnum, tURL, tProtocol, tMethod, tParams, tResult, tGetPath, tRespRef, tRespArr, tRequestObj}
	}
	if verifrt.Bound("MENU") == 5 {
		// JSON-RPC: under a fixed "URL /a", "Protocol json-rpc-2.0" come K lines out of Method, Params, Result, TYPE
		menu = []int{tMethod, tParams, tResult, tTypeObj}
	}
	text, lines := verifDocLines(menu, k, true)
	if verifrt.Bound("MENU") == 5 {
		pre := []refLine{{t: tJsight, parent: -1}, {t: tURL, letter: "a", parent: -1}, {t: tProtocol, parent: -1}}
		lines = append(pre, lines[1:]...)
		text = verifRender(lines)
	}
	if verifrt.Bound("MENU") == 1 || verifrt.Bound("MENU") == 2 {
		// both tags are declared up front, so that Tags directives at URL and method level are acceptable
		pre := []refLine{{t: tJsight, parent: -1}, {t: tTag, letter: "a", parent: -1}, {t: tTag, letter: "b", parent: -1}}
		lines = append(pre, lines[1:]...)
		text = verifRender(lines)
	}
	if !verifBareResponsesWellFormed(lines) {
		verifrt.Stop()
	}
	verifrt.Note("doc", text)
	core, je := verifRun(text)
	if je != nil {
		verifrt.Reach("C04.structure.rejected", true)
		return
	}
	ok := refResolveLines(lines)
	verifrt.Assert("C06.doc.accepted-implies-resolvable", ok)
	if !ok {
		return
	}
	var got []string
	for _, l := range verifSig(core.catalog) {
		if !strings.Contains(l, " example=") { // generated examples are not part of the reference model
			got = append(got, l)
		}
	}
	want := refCatalogSig(lines)
	verifrt.Assert("C04.structure.size", len(got) == len(want))
	if len(got) == len(want) {
		for i := range got {
			verifrt.Assert("C04.structure.line", got[i] == want[i])
			if strings.HasPrefix(want[i], "tag ") || strings.HasPrefix(want[i], " tag=") {
				// which tags exist, what they list, and which tags an interaction carries (C19)
				verifrt.Assert("C19.doc.tag-line", got[i] == want[i])
			}
		}
	}
	// C09: Title() accessor and id/key consistency
	if core.catalog.Info != nil {
		verifrt.Assert("C09.title", core.catalog.Info.Title == "" || core.catalog.Info.Title == "T")
	}
	// C19: every interaction carries at least one tag
	n := 0
	core.catalog.Interactions.EachSafe(func(k catalog.InteractionID, v catalog.Interaction) {
		n++
		switch in := v.(type) {
		case *catalog.HTTPInteraction:
			verifrt.Assert("C19.doc.at-least-one-tag", len(in.Tags) >= 1)
			verifrt.Assert("C09.doc.id-is-key", in.Id == k.String())
			for _, r := range in.Responses {
				// every response of an accepted document has a body whose format matches its notation
				ok := r.Body != nil && r.Body.Schema != nil
				if ok {
					f, err := catalog.SchemaSerializeFormat(r.Body.Schema.Notation)
					ok = err == nil && f == r.Body.Format
				}
				verifrt.Assert("C09.doc.response-has-body", ok)
			}
			if in.Request != nil {
				verifrt.Assert("C09.doc.request-has-body", in.Request.HTTPRequestBody != nil)
			}
		case *catalog.JsonRpcInteraction:
			verifrt.Assert("C19.doc.at-least-one-tag", len(in.Tags) >= 1)
			verifrt.Assert("C09.doc.id-is-key", in.Id == k.String())
		}
	})
	nTags := 0
	for _, ln := range lines {
		if ln.t == tTags {
			nTags++
		}
	}
	// C09: tags and interactions reference each other mutually (checked on the catalog itself)
	core.catalog.Interactions.EachSafe(func(k catalog.InteractionID, v catalog.Interaction) {
		var tags []catalog.TagName
		switch in := v.(type) {
		case *catalog.HTTPInteraction:
			tags = in.Tags
		case *catalog.JsonRpcInteraction:
			tags = in.Tags
		}
		for _, tn := range tags {
			t, ok := core.catalog.Tags.Get(tn)
			listed := false
			if ok {
				if g, has := t.InteractionGroups[k.Protocol()]; has {
					for _, id := range verifGroupIDs(g) {
						if id == k.String() {
							listed = true
						}
					}
				}
			}
			verifrt.Assert("C09.doc.interaction-tag-listed-in-tag", ok && listed)
		}
	})
	core.catalog.Tags.EachSafe(func(tn catalog.TagName, t *catalog.Tag) {
		for _, proto := range []catalog.Protocol{catalog.HTTP, catalog.JsonRpc} {
			g, has := t.InteractionGroups[proto]
			if !has {
				continue
			}
			for _, id := range verifGroupIDs(g) {
				carries := false
				core.catalog.Interactions.EachSafe(func(k catalog.InteractionID, v catalog.Interaction) {
					if k.String() != id {
						return
					}
					var tags []catalog.TagName
					switch in := v.(type) {
					case *catalog.HTTPInteraction:
						tags = in.Tags
					case *catalog.JsonRpcInteraction:
						tags = in.Tags
					}
					for _, x := range tags {
						if x == tn {
							carries = true
						}
					}
				})
				verifrt.Assert("C09.doc.tag-member-carries-tag", carries)
			}
		}
	})
	verifrt.Reach("C19.doc.url-and-method-tags", nTags >= 2 && n >= 1)
	verifrt.Reach("C04.structure.accepted-with-interaction", n >= 1)
	if verifrt.Bound("MENU") == 5 {
		hasResult := false
		for _, ln := range lines {
			if ln.t == tResult {
				hasResult = true
			}
		}
		verifrt.Reach("C04.structure.accepted-rpc-with-result", hasResult)
	}
	verifrt.Reach("C04.structure.accepted", true)
}

// verifSchemaSig renders the observable content of a JSight schema: the tree of
// (key, token type, type, inheritedFrom, scalar value) and the used types / enums.
func verifSchemaSig(prefix string, s *catalog.Schema) []string {
	var out []string
	if s == nil || s.ContentJSight == nil {
		return out
	}
	var walk func(p string, c *catalog.SchemaContentJSight)
	walk = func(p string, c *catalog.SchemaContentJSight) {
		key := "<root>"
		if c.Key != nil {
			key = *c.Key
		}
		line := p + " node " + key + " token=" + c.TokenType + " type=" + c.Type + " value=" + c.ScalarValue
		if c.InheritedFrom != "" {
			line += " inheritedFrom=" + c.InheritedFrom
		}
		out = append(out, line)
		for _, ch := range c.Children {
			walk(p+"/"+key, ch)
		}
	}
	walk(prefix, s.ContentJSight)
	if s.Example != "" {
		out = append(out, prefix+" example="+s.Example)
	}
	if s.UsedUserTypes != nil {
		for _, u := range s.UsedUserTypes.Data() {
			out = append(out, prefix+" usesType "+u)
		}
	}
	if s.UsedUserEnums != nil {
		for _, u := range s.UsedUserEnums.Data() {
			out = append(out, prefix+" usesEnum "+u)
		}
	}
	return out
}
