package core

import (
	"github.com/jsightapi/jsight-api-go-library/catalog"
	"github.com/jsightapi/jsight-api-go-library/internal/verifrt"
)

// VerifH_Determinism (C03): the same document processed twice gives the same
// verdict, the same diagnostic (message and index) and the same catalog -
// under every iteration order the runtime may choose for each map (the engine
// explores all orders of every map range independently in the two runs).
func VerifH_Determinism() {
	k := verifrt.Bound("K")
	menu := verifMenuMacroSmall
	if verifrt.Bound("MENU") == 0 {
		menu = verifMenuMacro
	}
	text, _ := verifDocLines(menu, k, true)
	verifrt.Note("doc", text)
	core0, je0 := verifRun(text)
	core1, je1 := verifRun(text)
	verifrt.Assert("C03.same-verdict", (je0 == nil) == (je1 == nil))
	if je0 != nil && je1 != nil {
		verifrt.Note("diagnostic-1", je0.Msg)
		verifrt.Note("diagnostic-2", je1.Msg)
		verifrt.Assert("C03.same-diagnostic", je0.Msg == je1.Msg && je0.Index() == je1.Index())
		verifrt.Reach("C03.rejected", true)
		return
	}
	if je0 == nil && je1 == nil {
		verifrt.Assert("C03.same-catalog", verifSameSig(verifSig(core0.catalog), verifSig(core1.catalog)))
		verifrt.Reach("C03.accepted", true)
	}
}

// VerifH_DeterminismUnusedParams (C03): the diagnostic listing unused path
// parameters does not depend on map iteration order.
func VerifH_DeterminismUnusedParams() {
	n := verifrt.Choice("n", 3) + 1
	core := &JApiCore{}
	names := []string{"x", "y", "z"}
	mk := func() map[string]*catalog.SchemaContentJSight {
		m := map[string]*catalog.SchemaContentJSight{}
		for i := 0; i < n; i++ {
			m[names[i]] = &catalog.SchemaContentJSight{}
		}
		return m
	}
	a := core.getPropertiesNames(mk())
	b := core.getPropertiesNames(mk())
	verifrt.Note("first", a)
	verifrt.Note("second", b)
	verifrt.Assert("C03.unused-params-message", a == b)
	verifrt.Reach("C03.unused-params.two", n >= 2)
}
