package core

import (
	"os"

	"github.com/jsightapi/jsight-schema-go-library/fs"

	"github.com/jsightapi/jsight-api-go-library/catalog"
	"github.com/jsightapi/jsight-api-go-library/directive"
	"github.com/jsightapi/jsight-api-go-library/internal/verifrt"
)

// VerifH_Determinism (C03): the same document processed twice gives the same
// verdict, the same diagnostic (message and index) and the same catalog -
// under every iteration order the runtime may choose for each map (the engine
// explores all orders of every map range independently in the two runs).
func VerifH_Determinism() {
	k := verifrt.Bound("K")
	menu := verifMenuMacroSmall
	if verifrt.Bound("MENU") == 0 {
		menu = verifMenuMacro
	}
	if verifrt.Bound("MENU") == 2 {
		// generated examples: a regex type with several matches, embedded in the example of an object that
		// refers to it (real schema library, regex example generator, math/rand; the clock moves between runs)
		menu = []int{tTypeRegex, tGetPath, tRespObjRef, tTypeObj}
	}
	text, _ := verifDocLines(menu, k, true)
	verifrt.Note("doc", text)
	core0, je0 := verifRun(text)
	core1, je1 := verifRun(text)
	verifrt.Assert("C03.same-verdict", (je0 == nil) == (je1 == nil))
	if je0 != nil && je1 != nil {
		verifrt.Note("diagnostic-1", je0.Msg)
		verifrt.Note("diagnostic-2", je1.Msg)
		verifrt.Assert("C03.same-diagnostic", je0.Msg == je1.Msg && je0.Index() == je1.Index())
		verifrt.Reach("C03.rejected", true)
		return
	}
	if je0 == nil && je1 == nil {
		verifrt.Assert("C03.same-catalog", verifSameSig(verifSig(core0.catalog), verifSig(core1.catalog)))
		verifrt.Reach("C03.accepted", true)
	}
}

// VerifH_DeterminismUnusedParams (C03): the diagnostic listing unused path
// parameters does not depend on map iteration order.
func VerifH_DeterminismUnusedParams() {
	n := verifrt.Choice("n", 3) + 1
	core := &JApiCore{}
	names := []string{"x", "y", "z"}
	mk := func() map[string]*catalog.SchemaContentJSight {
		m := map[string]*catalog.SchemaContentJSight{}
		for i := 0; i < n; i++ {
			m[names[i]] = &catalog.SchemaContentJSight{}
		}
		return m
	}
	a := core.getPropertiesNames(mk())
	b := core.getPropertiesNames(mk())
	verifrt.Note("first", a)
	verifrt.Note("second", b)
	verifrt.Assert("C03.unused-params-message", a == b)
	verifrt.Reach("C03.unused-params.two", n >= 2)
}

var verifMenuCross = []int{tTypeAny, tTag, tTags, tGetPath, tServer, tURL, tGet, tMacro, tPaste}

// VerifH_CrossProject (C03, C16): processing another project in the same
// process does not change the result of a project: B processed after A gives
// the verdict, diagnostic and catalog of B processed first. Any state shared
// between projects through package-level variables shows up as a difference.
func VerifH_CrossProject() {
	k := verifrt.Bound("K")
	textB, _ := verifDocLines(verifMenuCross, k, true)
	textA, _ := verifDocLines(verifMenuCross, k, true)
	verifrt.Note("B", textB)
	verifrt.Note("A", textA)
	core0, je0 := verifRun(textB)
	_, _ = verifRun(textA)
	core1, je1 := verifRun(textB)
	verifrt.Assert("C03.cross.same-verdict", (je0 == nil) == (je1 == nil))
	verifrt.Assert("C16.cross.same-verdict", (je0 == nil) == (je1 == nil))
	if je0 != nil && je1 != nil {
		same := je0.Msg == je1.Msg && je0.Index() == je1.Index() && je0.Line() == je1.Line()
		verifrt.Assert("C03.cross.same-diagnostic", same)
		verifrt.Assert("C16.cross.same-diagnostic", same)
		verifrt.Reach("C03.cross.rejected", true)
		return
	}
	if je0 == nil && je1 == nil {
		same := verifSameSig(verifSig(core0.catalog), verifSig(core1.catalog))
		verifrt.Assert("C03.cross.same-catalog", same)
		verifrt.Assert("C16.cross.same-catalog", same)
		verifrt.Reach("C03.cross.accepted", true)
	}
}

var verifMenuCrossInc = []int{tTypeAny, tGetPath, tURL, tGet, tServer, tTag}

// VerifH_CrossProjectInclude (C03, C16): the same for projects with an INCLUDE.
// Project A and project B have the same root file and live at the same place of
// the file system, but their included file differs (a workspace that is edited
// and validated again, a staging directory that is reused). B validated after A
// gives what B gives in a directory no project was ever validated in: nothing
// read for one project may be remembered for the next.
func VerifH_CrossProjectInclude() {
	k := verifrt.Bound("K")
	root := "JSIGHT 0.3\nINCLUDE inc.jst\n"
	incB, _ := verifDocLines(verifMenuCrossInc, k, false)
	incA, _ := verifDocLines(verifMenuCrossInc, k, false)
	verifrt.Note("inc.jst of B", incB)
	verifrt.Note("inc.jst of A", incA)
	verifFSInit()
	used := verifDir
	fresh := "/p/e"
	if !verifrt.Symbolic() {
		d, err := os.MkdirTemp("", "verif-fs2-")
		if err != nil {
			panic(err)
		}
		fresh = d
	}
	stage := func(dir, inc string) {
		verifDir = dir
		verifFiles = map[string][]byte{dir + "/inc.jst": []byte(inc)}
		verifFSWrite(verifFiles)
	}
	stage(used, incA)
	_, _ = verifRun(root)
	stage(used, incB)
	core1, je1 := verifRun(root) // B after A, same place
	stage(fresh, incB)
	core0, je0 := verifRun(root) // B where nothing was validated before
	verifrt.Assert("C03.crossinc.same-verdict", (je0 == nil) == (je1 == nil))
	verifrt.Assert("C16.crossinc.same-verdict", (je0 == nil) == (je1 == nil))
	if je0 != nil && je1 != nil {
		same := je0.Msg == je1.Msg && je0.Index() == je1.Index() && je0.Line() == je1.Line()
		verifrt.Assert("C03.crossinc.same-diagnostic", same)
		verifrt.Assert("C16.crossinc.same-diagnostic", same)
		verifrt.Reach("C03.crossinc.rejected", true)
		return
	}
	if je0 == nil && je1 == nil {
		same := verifSameSig(verifSig(core0.catalog), verifSig(core1.catalog))
		verifrt.Assert("C03.crossinc.same-catalog", same)
		verifrt.Assert("C16.crossinc.same-catalog", same)
		verifrt.Reach("C03.crossinc.accepted", true)
	}
}

// VerifH_SharedOptions (C16, "all per-parse state hangs off JApiCore"): an
// Option value is plain data a caller may keep and hand to any number of
// NewJApiCore calls. Project B created with the reused option gives the result it
// gives with a fresh option of the same content - whatever other project A was
// created before with the reused option followed by a second option.
func VerifH_SharedOptions() {
	k := verifrt.Bound("K")
	menu := []int{tServer, tTag, tTypeAny, tGetPath, tInfo}
	textB, _ := verifDocLines(menu, k, true)
	textA, _ := verifDocLines(menu, 1, true)
	pick := func(name string) directive.Enumeration {
		return refKind(menu[verifrt.Choice(name, len(menu))])
	}
	b1, b2 := pick("banned-by-reused-option"), pick("banned-by-second-option")
	verifrt.Note("B", textB)
	verifrt.Note("A", textA)
	verifrt.Note("reused", b1.String())
	verifrt.Note("second", b2.String())
	reused := WithBannedDirectives(b1)
	coreA := NewJApiCore(fs.NewFile(verifDir+"/a.jst", textA), reused, WithBannedDirectives(b2))
	_ = coreA.ValidateJAPI()
	core1 := NewJApiCore(fs.NewFile(verifDir+"/b.jst", textB), reused)
	je1 := core1.ValidateJAPI()
	core0 := NewJApiCore(fs.NewFile(verifDir+"/b.jst", textB), WithBannedDirectives(b1))
	je0 := core0.ValidateJAPI()
	verifrt.Assert("C16.options.same-verdict", (je0 == nil) == (je1 == nil))
	if je0 != nil && je1 != nil {
		verifrt.Assert("C16.options.same-diagnostic", je0.Msg == je1.Msg && je0.Index() == je1.Index())
		verifrt.Reach("C16.options.rejected", true)
		return
	}
	if je0 == nil && je1 == nil {
		verifrt.Assert("C16.options.same-catalog", verifSameSig(verifSig(core0.catalog), verifSig(core1.catalog)))
		verifrt.Reach("C16.options.accepted", true)
	}
}
