package core

import (
	"github.com/jsightapi/jsight-schema-go-library/fs"

	"github.com/jsightapi/jsight-api-go-library/internal/verifrt"
	"github.com/jsightapi/jsight-api-go-library/jerr"
)

var verifCorePrefixes = []string{
	0:  "",
	1:  "INCLUDE a\n",
	2:  "URL /a\n(\nINCLUDE a\n",
	3:  "GET /a\n",
	4:  "TYPE @a ",
	5:  "JSIGHT 0.3\n",
	6:  "URL /a\n",
	7:  "INCLUDE a\nINCLUDE a\n",
	8:  "GET /a\n(\n",
	9:  "MACRO @m\n(\n",
	10: "INFO\nTitle \"",
	11: "URL /a\n)",
	12: "Description\n",
	13: "GET /a\nDescription\n",
	14: "INCLUDE a ",
	15: "URL /a\nINCLUDE a ",
	16: "GET /a\nINCLUDE a\n",
}

// VerifH_ScanProjectTotal (C01.3, C02b): for every root file prefix·x (x of
// 0..N bytes) and every included file of 0..M bytes (plus the absent /
// directory / unreadable outcomes of the virtual file system), scanProject
// terminates without a fault, and an error points into the file it names.
func VerifH_ScanProjectTotal() {
	prefix := verifCorePrefixes[verifrt.Bound("P")]
	n := verifrt.Choice("n", verifrt.Bound("N")+1)
	data := append([]byte(prefix), verifrt.Bytes("b", n)...)
	m := verifrt.Choice("m", verifrt.Bound("M")+1)
	verifFileBytes = verifrt.Bytes("inc", m)
	verifStatCalls, verifReadCalls = nil, nil
	verifFSInit()
	verifFSTarget("a", verifFileBytes)
	core := NewJApiCore(fs.NewFile(verifDir+"/root.jst", data))
	je := core.scanProject()
	if je != nil {
		f := jerr.VerifFileOf(je)
		verifrt.Assert("C02.scanproject.error-file", f != nil)
		if f != nil {
			verifrt.Assert("C02.scanproject.error-index-in-file", int(je.Index()) <= len(f.Content()))
			verifrt.Assert("C02.scanproject.error-file-known", f.Name() == verifDir+"/root.jst" || f.Name() == verifDir+"/a")
			// an error located in the included file carries the include trace
			if f.Name() != verifDir+"/root.jst" {
				verifrt.Assert("C02.scanproject.trace-present", je.HasStackTrace())
			}
		}
		verifrt.Reach("C01.scanproject.rejected", true)
		return
	}
	verifrt.Assert("C06.scanproject.no-open-context", !core.HasUnclosedExplicitContext())
	verifrt.Assert("C08.scanproject.stack-empty", core.scannersStack.Empty())
	verifrt.Reach("C01.scanproject.accepted", len(core.directives) > 0)
}
