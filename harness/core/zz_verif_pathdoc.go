package core

import (
	"github.com/jsightapi/jsight-api-go-library/catalog"
	"github.com/jsightapi/jsight-api-go-library/internal/verifrt"
)

// VerifH_PathDoc (C13 at document level, through the scanner, context
// resolution, collectPathVariables and the real schema library): under a fixed
// "URL /a/{x}/{y}" come K lines out of: Path {"x"}, Path {"y"}, GET, POST (methods
// taking the URL's path) and GET /a/{x}/{y}/z (a method with its own longer
// path, which ends the URL block). A Path directive may stand under the URL and
// under each method. The document is rejected exactly when two Path directives
// stand under one parent or one parameter is declared twice for the prefix;
// otherwise every interaction lists, in path order, exactly the parameters some
// Path directive declares.
func VerifH_PathDoc() {
	k := verifrt.Bound("K")
	_, more := verifDocLines([]int{tPathX, tPathY, tGet, tPost, tGetXYZ}, k, false)
	lines := append([]refLine{{t: tJsight, parent: -1}, {t: tURLParam2, parent: -1}}, more...)
	text := verifRender(lines)
	verifrt.Note("doc", text)
	if !refResolveLines(lines) {
		verifrt.Stop()
	}
	// reference
	declared := map[string]int{}
	fault := false
	perParent := map[int]int{}
	nMethods := 0
	seen := map[int]bool{}
	for i, ln := range lines {
		switch ln.t {
		case tPathX, tPathY:
			name := "x"
			if ln.t == tPathY {
				name = "y"
			}
			perParent[ln.parent]++
			if perParent[ln.parent] > 1 {
				fault = true
			}
			declared[name]++
			if declared[name] > 1 {
				fault = true
			}
		case tGet, tPost, tGetXYZ:
			nMethods++
			// the same method twice on one path is another fault (C11)
			if ln.t != tGetXYZ && (ln.parent != 1 || seen[tGetXYZ]) {
				verifrt.Stop() // a path-less method outside the URL block (ended by a method with its own path) has no path
			}
			if seen[ln.t] {
				verifrt.Stop()
			}
			seen[ln.t] = true
		}
		_ = i
	}
	core, je := verifRun(text)
	if je != nil {
		verifrt.Note("diagnostic", je.Msg)
	}
	verifrt.Assert("C13.doc.rejected-iff-fault", (je != nil) == fault)
	if je != nil || fault {
		verifrt.Reach("C13.doc.rejected", true)
		return
	}
	var want []string
	if declared["x"] == 1 {
		want = append(want, "x")
	}
	if declared["y"] == 1 {
		want = append(want, "y")
	}
	n := 0
	core.catalog.Interactions.EachSafe(func(_ catalog.InteractionID, v catalog.Interaction) {
		hi, ok := v.(*catalog.HTTPInteraction)
		if !ok {
			return
		}
		n++
		var got []string
		if hi.PathVariables != nil && hi.PathVariables.Schema.ContentJSight != nil {
			for _, c := range hi.PathVariables.Schema.ContentJSight.Children {
				if c.Key != nil {
					got = append(got, *c.Key)
				}
			}
		}
		same := len(got) == len(want)
		for i := 0; same && i < len(got); i++ {
			same = got[i] == want[i]
		}
		verifrt.Assert("C13.doc.bound-parameters", same)
	})
	verifrt.Assert("C13.doc.interactions", n == nMethods)
	verifrt.Reach("C13.doc.bound", n >= 1 && len(want) >= 1)
	verifrt.Reach("C13.doc.two-path-directives", declared["x"] == 1 && declared["y"] == 1)
}
