package core

import (
	"github.com/jsightapi/jsight-schema-go-library/bytes"
	"github.com/jsightapi/jsight-schema-go-library/fs"

	"github.com/jsightapi/jsight-api-go-library/directive"
	"github.com/jsightapi/jsight-api-go-library/internal/verifrt"
	"github.com/jsightapi/jsight-api-go-library/jerr"
)

// ---- L-dir: events with symbolic directive kinds ----

const (
	evDirective = 0
	evOpen      = 1
	evClose     = 2
)

type refDir struct {
	kind     directive.Enumeration
	hasPath  bool
	explicit bool
	parent   int // -1 = top level
}

const (
	refOK = iota
	refIncorrectContext
	refNoContextToClose
	refUnclosed
)

// refPlace: the nearest still-open enclosing directive that admits d, walking
// outwards from cur without leaving a parenthesised context; -1 for top level.
// A path-bearing HTTP method is not admitted by a URL.
func refPlace(dd []refDir, cur int, d refDir) (parent int, ok bool) {
	c := cur
	for c != -1 {
		admits := dd[c].kind.IsAllowedForDirectiveContext(d.kind)
		if admits && d.kind.IsHTTPRequestMethod() && d.hasPath && dd[c].kind == directive.URL {
			admits = false
		}
		if admits {
			return c, true
		}
		if dd[c].explicit {
			return 0, false
		}
		c = dd[c].parent
	}
	if d.kind.IsAllowedForRootContext() {
		return -1, true
	}
	return 0, false
}

func verifNewDirective(f *fs.File, i int, kind directive.Enumeration, hasPath bool) *directive.Directive {
	d := directive.VerifNew(kind, directive.NewCoords(f, bytes.Index(i), bytes.Index(i)), "K")
	if hasPath {
		_ = d.SetNamedParameter("Path", "/p")
	}
	return d
}

// verifTreeParents flattens the real tree: parent event index per directive and visit order.
func verifTreeParents(roots []*directive.Directive, parent int, parents map[int]int, order *[]int) {
	for _, d := range roots {
		i := directive.VerifKeywordBegin(d)
		parents[i] = parent
		*order = append(*order, i)
		verifTreeParents(d.Children, i, parents, order)
	}
}

// VerifH_ContextResolution (C06): for every sequence of at most K events
// (directive of any of the 30 kinds, with or without its own Path; '('; ')';
// end of input) the real resolver and the reference agree on acceptance, on the
// rejected event and its reason, and on the parent of every directive and the
// order of children.
func VerifH_ContextResolution() {
	k := verifrt.Choice("k", verifrt.Bound("K")) + 1
	f := fs.NewFile("doc.jst", "0123456789abcdef")
	core := NewJApiCore(f)
	var dd []refDir // reference state: placed directives
	refCur := -1
	pendingRef := -1 // index in dd of the directive read but not yet placed
	var refPending refDir
	refStatus := refOK
	var realErr *jerr.JApiError

	place := func() {
		// the previously read directive is complete: place it (real, then reference)
		if core.currentDirective == nil {
			return
		}
		realErr = core.processCurrentDirective()
		p, ok := refPlace(dd, refCur, refPending)
		if !ok {
			refStatus = refIncorrectContext
			return
		}
		refPending.parent = p
		dd = append(dd, refPending)
		refCur = len(dd) - 1
		pendingRef = -1
	}

	for i := 0; i < k && refStatus == refOK && realErr == nil; i++ {
		switch verifrt.Choice("ev", 3) {
		case evDirective:
			place()
			if refStatus != refOK || realErr != nil {
				break
			}
			kind := directive.Enumeration(verifrt.Int("kind", 0, 29))
			hasPath := verifrt.Bool("hasPath")
			verifrt.Assume(!hasPath || kind.IsHTTPRequestMethod())
			core.currentDirective = verifNewDirective(f, len(dd), kind, hasPath)
			refPending = refDir{kind: kind, hasPath: hasPath, parent: -2}
			pendingRef = len(dd)
		case evOpen:
			// '(' belongs to the directive just read
			verifrt.Assume(core.currentDirective != nil)
			core.currentDirective.HasExplicitContext = true
			refPending.explicit = true
		case evClose:
			hadPending := core.currentDirective != nil
			realErr = core.processContextEnd()
			if hadPending {
				p, ok := refPlace(dd, refCur, refPending)
				if !ok {
					refStatus = refIncorrectContext
					break
				}
				refPending.parent = p
				dd = append(dd, refPending)
				refCur = len(dd) - 1
				pendingRef = -1
			}
			// close the innermost parenthesised context
			c := refCur
			for c != -1 && !dd[c].explicit {
				c = dd[c].parent
			}
			if c == -1 {
				refStatus = refNoContextToClose
				break
			}
			refCur = dd[c].parent
			// a closed context is not "still open": later directives cannot enter it,
			// and its parenthesis no longer blocks the walk
			dd[c].explicit = false
		}
	}
	if refStatus == refOK && realErr == nil {
		// end of input
		hadPending := core.currentDirective != nil
		realErr = core.processEOF()
		if hadPending {
			p, ok := refPlace(dd, refCur, refPending)
			if !ok {
				refStatus = refIncorrectContext
			} else {
				refPending.parent = p
				dd = append(dd, refPending)
				refCur = len(dd) - 1
			}
		}
		if refStatus == refOK {
			for c := refCur; c != -1; c = dd[c].parent {
				if dd[c].explicit {
					refStatus = refUnclosed
				}
			}
		}
	}
	_ = pendingRef
	verifrt.NoteInt("refStatus", refStatus)
	if realErr != nil {
		verifrt.Note("realErr", realErr.Msg)
	}
	verifrt.Assert("C06.verdict", (realErr == nil) == (refStatus == refOK))
	if realErr != nil && refStatus != refOK {
		verifrt.Reach("C06.rejected", true)
		return
	}
	if realErr != nil || refStatus != refOK {
		return
	}
	parents := map[int]int{}
	var order []int
	verifTreeParents(core.directives, -1, parents, &order)
	verifrt.Assert("C06.all-present", len(order) == len(dd))
	for i := range dd {
		p, ok := parents[i]
		verifrt.Assert("C06.parent", ok && p == dd[i].parent)
	}
	// document order: a pre-order walk visits directives in the order read
	for j := range order {
		verifrt.Assert("C06.order", order[j] == j)
	}
	verifrt.Reach("C06.accepted-nested", len(dd) >= 2 && dd[len(dd)-1].parent >= 0)
	verifrt.Reach("C06.accepted", len(dd) >= 1)
}

// verifShape renders a forest as "kind(parent-position) ..." in pre-order with explicit flags, for comparison.
func verifShape(roots []*directive.Directive, depth int, out *[]int) {
	for _, d := range roots {
		*out = append(*out, directive.VerifKeywordBegin(d)*100+depth)
		verifShape(d.Children, depth+1, out)
	}
}

// VerifH_ContextAfterPaste (C06, "same resolution re-run after macro
// expansion"): for every accepted macro-free sequence of at most K events
// (symbolic kinds, parentheses), re-resolving the tree through processPaste
// reproduces it: same directives, same nesting depth, same order.
func VerifH_ContextAfterPaste() {
	k := verifrt.Choice("k", verifrt.Bound("K")) + 1
	f := fs.NewFile("doc.jst", "0123456789abcdef")
	core := NewJApiCore(f)
	n := 0
	var realErr *jerr.JApiError
	for i := 0; i < k && realErr == nil; i++ {
		switch verifrt.Choice("ev", 3) {
		case evDirective:
			realErr = core.processCurrentDirective()
			if realErr != nil {
				break
			}
			kind := directive.Enumeration(verifrt.Int("kind", 0, 29))
			verifrt.Assume(kind != directive.Macro && kind != directive.Paste)
			hasPath := verifrt.Bool("hasPath")
			verifrt.Assume(!hasPath || kind.IsHTTPRequestMethod())
			core.currentDirective = verifNewDirective(f, n, kind, hasPath)
			n++
		case evOpen:
			verifrt.Assume(core.currentDirective != nil)
			core.currentDirective.HasExplicitContext = true
		case evClose:
			realErr = core.processContextEnd()
		}
	}
	if realErr == nil {
		realErr = core.processEOF()
	}
	if realErr != nil {
		verifrt.Stop()
	}
	je := core.processPaste()
	verifrt.Assert("C06.after-paste.accepted", je == nil)
	if je != nil {
		return
	}
	var a, b []int
	verifShape(core.directives, 0, &a)
	verifShape(core.directivesWithPastes, 0, &b)
	verifrt.Assert("C06.after-paste.same-size", len(a) == len(b))
	if len(a) == len(b) {
		for i := range a {
			verifrt.Assert("C06.after-paste.same-tree", a[i] == b[i])
		}
	}
	verifrt.Reach("C06.after-paste.nested", len(a) >= 2)
}
