package core

import (
	"github.com/jsightapi/jsight-api-go-library/internal/verifrt"
)

var verifMenuSurface = []int{tInfo, tTitle, tServer, tBaseURL, tURL, tGet, tPost, tGetPath, tRequestAny, tResp200, tResp404, tTypeAny, tTag, tTags, tMacro, tPaste}

const (
	rwCommentLine = iota
	rwBlockCommentLine
	rwBlankLine
	rwIndentSpaces
	rwIndentTab
	rwTrailingBlank
	rwTrailingComment
	rwCRLF
	rwCR
	rwQuoteParameter
	rwParens
	rwCount
)

var verifRwNames = []string{"comment line", "block comment line", "blank line", "indent (spaces)", "indent (tab)", "trailing blank",
	"trailing comment", "CRLF line ends", "CR line ends", "quote a parameter", "explicit parentheses"}

// refEndsWithSchemaBody: templates whose last line is the end of a JSight schema body (the schema library
// decides where that body ends, and reads the comments that follow it).
func refEndsWithSchemaBody(t int) bool {
	switch t {
	case tEnum, tTypeObj, tTypeAllOf, tTypeNested, tHeaders, tPathDir, tRequestObj, tParams, tResult, tPathX, tPathY,
		tRespObjRef, tPathRefT, tTypeRefT, tTypeIdObj, tEnumNoName, tRespRef, tRespArr:
		return true
	}
	return false
}

// verifCommentText: CM symbolic bytes of comment text over { a # blank / * " ( } that do not contain
// "###" (which would close a block comment): whatever a comment says, it is a comment.
func verifCommentText(lineComment bool) string {
	m := verifrt.Bound("CM")
	c := verifrt.String("comment", m)
	if lineComment && m >= 2 {
		verifrt.Assume(!(c[0] == '#' && c[1] == '#')) // "###" would open a block comment
	}
	for i := 0; i < m; i++ {
		b := c[i]
		verifrt.Assume(b == 'a' || b == '#' || b == ' ' || b == '/' || b == '*' || b == '"' || b == '(')
		if i >= 2 {
			verifrt.Assume(!(c[i] == '#' && c[i-1] == '#' && c[i-2] == '#'))
		}
	}
	return c
}

// verifQuoted: the line with its first parameter in double quotes, "" if it has none that can be quoted bare-equivalently.
func verifQuoted(t int, l string) string {
	switch t {
	case tURL:
		return "URL \"/" + l + "\""
	case tGetPath:
		return "GET \"/" + l + "\""
	case tServer:
		return "SERVER \"@" + l + "\" // s"
	case tTypeAny:
		return "TYPE \"@" + l + "\" \"any\" // t"
	case tTag:
		return "TAG \"@" + l + "\" // tt"
	case tTags:
		return "Tags \"@" + l + "\""
	case tMacro:
		return "MACRO \"@" + l + "\""
	case tPaste:
		return "PASTE \"@" + l + "\""
	case tRequestAny:
		return "Request \"any\""
	case tURLParam:
		return "URL \"/" + l + "/{id}\""
	case tRespRef:
		return "200 \"@" + l + "\""
	case tRespArr:
		return "200 \"[@" + l + "]\""
	case tResp200:
		return "200 \"any\" // ok"
	}
	return ""
}

// VerifH_SurfaceSyntax (C05): one rewriting that does not change what the
// document says - a comment / block-comment / blank line between directives,
// indentation or trailing blanks / comment on a directive line, CRLF or CR line
// ends, quotes around a parameter that needs none, explicit parentheses around
// children that nest there anyway - changes neither the verdict nor the catalog.
func VerifH_SurfaceSyntax() {
	k := verifrt.Bound("K")
	menu := verifMenuSurface
	if verifrt.Bound("MENU") == 1 {
		// schema-bearing lines (real schema library): bodies, path parameters, references to types
		menu = []int{tURLParam, tGet, tGetPath, tPathDir, tRespRef, tRespArr, tRequestObj, tTypeObj, tEnum, tTypeNested}
	}
	if verifrt.Bound("MENU") == 2 {
		// responses referring to types in the three spellings, followed by further lines
		menu = []int{tGetPath, tRespArr, tRespRef, tTypeObj}
	}
	_, lines := verifDocLines(menu, k, true)
	if !refResolveLines(lines) {
		verifrt.Stop()
	}
	text0 := verifRender(lines)
	rw := verifrt.Choice("rewriting", rwCount)
	at := verifrt.Choice("at", len(lines)) // the line the rewriting applies to (or before which a line is inserted)
	verifrt.Note("rewriting", verifRwNames[rw])
	// the line-end convention of the rewritten document is chosen independently of the other rewriting
	nl := "\n"
	if verifrt.Choice("newline", 2) == 1 {
		nl = "\r" // CRLF combined with the other rewritings adds nothing over CR: every state treats CR and LF alike or not at all
	}
	switch rw {
	case rwCRLF:
		nl = "\r\n"
	case rwCR:
		nl = "\r"
	}
	// parentheses: around the children of line `at`, which must have some
	lastDesc := -1
	if rw == rwParens {
		sub := refSubtree(lines, at)
		if len(sub) == 0 {
			verifrt.Stop()
		}
		lastDesc = sub[len(sub)-1]
	}
	text1 := ""
	for i, ln := range lines {
		line := verifLineWith(ln.t, ln.letter)
		if i == at {
			switch rw {
			case rwCommentLine:
				if i > 0 && refEndsWithSchemaBody(lines[i-1].t) {
					verifrt.Note("comment-position", "a line comment directly after a JSight schema body")
				}
				text1 += "#" + verifCommentText(true) + " a comment" + nl
			case rwBlockCommentLine:
				text1 += "###" + verifCommentText(false) + " block" + nl + "comment ###" + nl
			case rwBlankLine:
				text1 += "  " + nl
			case rwIndentSpaces:
				line = "    " + line
			case rwIndentTab:
				line = "\t" + line
			case rwTrailingBlank:
				line += " \t"
			case rwTrailingComment:
				line += " # c"
			case rwQuoteParameter:
				q := verifQuoted(ln.t, ln.letter)
				if q == "" {
					verifrt.Stop()
				}
				line = q
			}
		}
		text1 += line + nl
		if rw == rwParens && i == at {
			text1 += "(" + nl
		}
		if rw == rwParens && i == lastDesc {
			text1 += ")" + nl
		}
	}
	verifrt.Note("doc", text0)
	verifrt.Note("rewritten", text1)
	core0, je0 := verifRun(text0)
	core1, je1 := verifRun(text1)
	verifrt.Assert("C05.same-verdict", (je0 == nil) == (je1 == nil))
	if je0 != nil && je1 != nil {
		verifrt.Assert("C05.same-diagnostic", je0.Msg == je1.Msg)
		verifrt.Reach("C05.rejected", true)
		return
	}
	if je0 != nil || je1 != nil {
		return
	}
	verifrt.Assert("C05.same-catalog", verifSameSig(verifSig(core0.catalog), verifSig(core1.catalog)))
	verifrt.Reach("C05.accepted", true)
}
