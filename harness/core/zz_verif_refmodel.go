package core

import (
	"github.com/jsightapi/jsight-api-go-library/directive"
)

// ---- reference model of "what the document declares" (C04, C19b, C09) ----

func refKind(t int) directive.Enumeration {
	switch t {
	case tJsight:
		return directive.Jsight
	case tInfo:
		return directive.Info
	case tTitle, tTitleBlank:
		return directive.Title
	case tVersion:
		return directive.Version
	case tServer:
		return directive.Server
	case tBaseURL:
		return directive.BaseURL
	case tURL:
		return directive.URL
	case tGet, tGetPath:
		return directive.Get
	case tPost:
		return directive.Post
	case tRequestAny:
		return directive.Request
	case tResp200, tResp404, tRespBare, tRespArr:
		return directive.HTTPResponseCode
	case tHeaders:
		return directive.Headers
	case tEnumNoName:
		return directive.Enum
	case tServerNoName:
		return directive.Server
	case tTypeNoName:
		return directive.Type
	case tTagNoName:
		return directive.TAG
	case tPasteNoName:
		return directive.Paste
	case tTagsNoName:
		return directive.Tags
	case tMethodNoName:
		return directive.Method
	case tBodyAny:
		return directive.Body
	case tTypeAny:
		return directive.Type
	case tMacro:
		return directive.Macro
	case tPaste:
		return directive.Paste
	case tTag:
		return directive.TAG
	case tTags:
		return directive.Tags
	case tProtocol:
		return directive.Protocol
	case tMethod:
		return directive.Method
	case tDescription:
		return directive.Description
	case tEnum:
		return directive.Enum
	case tTypeObj, tTypeAllOf, tTypeNested:
		return directive.Type
	case tRespRef:
		return directive.HTTPResponseCode
	case tURLParam:
		return directive.URL
	case tPathDir:
		return directive.Path
	case tRequestObj:
		return directive.Request
	case tPathX, tPathY:
		return directive.Path
	case tGetXYZ:
		return directive.Get
	case tURLParam2:
		return directive.URL
	case tGetNm:
		return directive.Get
	case tTypeRegex, tTypeRefT, tTypeIdObj:
		return directive.Type
	case tPathRefT:
		return directive.Path
	case tRespObjRef:
		return directive.HTTPResponseCode
	case tParams:
		return directive.Params
	case tResult:
		return directive.Result
	case tIncludeFile, tIncludeMissing:
		return directive.Include
	}
	return directive.Jsight
}

// refResolveLines: parents by the C06 rule; "(" and ")" lines open and close
// the explicit context of the directive before them (they are not directives
// themselves: parent -1, never matched by kind).
func refResolveLines(lines []refLine) bool {
	cur := -1
	last := -1 // the directive read last (the one a "(" belongs to)
	explicit := make([]bool, len(lines))
	for i := range lines {
		switch lines[i].t {
		case tOpen:
			if last < 0 {
				return false
			}
			explicit[last] = true
			lines[i].parent = -1
			continue
		case tClose:
			lines[i].parent = -1
			c := cur
			for c != -1 && !explicit[c] {
				c = lines[c].parent
			}
			if c == -1 {
				return false
			}
			explicit[c] = false
			cur = lines[c].parent
			last = -1
			continue
		}
		k := refKind(lines[i].t)
		c := cur
		placed := false
		for c != -1 {
			admits := refKind(lines[c].t).IsAllowedForDirectiveContext(k)
			if admits && lines[i].t == tGetPath && refKind(lines[c].t) == directive.URL {
				admits = false
			}
			if admits {
				lines[i].parent = c
				placed = true
				break
			}
			if explicit[c] {
				return false
			}
			c = lines[c].parent
		}
		if !placed {
			if !k.IsAllowedForRootContext() {
				return false
			}
			lines[i].parent = -1
		}
		cur = i
		last = i
	}
	for c := cur; c != -1; c = lines[c].parent {
		if explicit[c] {
			return false
		}
	}
	return true
}

func refChild(lines []refLine, p int, t int) int {
	for i := range lines {
		if lines[i].parent == p && lines[i].t == t {
			return i
		}
	}
	return -1
}

func refIsMethod(t int) bool { return t == tGet || t == tPost || t == tGetPath || t == tMethod }

// refInteractionID of method line i.
func refInteractionID(lines []refLine, i int) (id string, path string) {
	ln := lines[i]
	switch ln.t {
	case tGetPath:
		path = "/" + ln.letter
	default:
		if ln.parent >= 0 && lines[ln.parent].t == tURL {
			path = "/" + lines[ln.parent].letter
		}
	}
	switch ln.t {
	case tGet, tGetPath:
		return "http GET " + path, path
	case tPost:
		return "http POST " + path, path
	case tMethod:
		return "json-rpc-2.0 m" + ln.letter + " " + path, path
	}
	return "", path
}

type refTag struct {
	name, title string
	desc        string
	hasDesc     bool
	http, rpc   []string
}

// refCatalogSig: the catalog an accepted macro-free document declares.
func refCatalogSig(lines []refLine) []string {
	var out []string
	ver := ""
	if refChild(lines, -1, tJsight) >= 0 {
		ver = "0.3"
	}
	out = append(out, "jsight="+ver)
	if i := refChild(lines, -1, tInfo); i >= 0 {
		title, version := "", ""
		if refChild(lines, i, tTitle) >= 0 {
			title = "T"
		}
		if refChild(lines, i, tVersion) >= 0 {
			version = "1"
		}
		out = append(out, "info title="+title+" version="+version)
		if d := refChild(lines, i, tDescription); d >= 0 {
			out = append(out, "info description=text "+lines[d].letter)
		}
	}
	for i := range lines {
		if lines[i].t == tServer {
			base := ""
			if refChild(lines, i, tBaseURL) >= 0 {
				base = "http://x"
			}
			out = append(out, "server @"+lines[i].letter+" annotation=s base="+base)
		}
	}
	for i := range lines {
		l := lines[i].letter
		switch lines[i].t {
		case tTypeAny:
			out = append(out, "type @"+l+" annotation=t notation=any")
		case tTypeObj:
			out = append(out, "type @"+l+" annotation= notation=jsight",
				"type @"+l+" node <root> token=object type=object value=",
				"type @"+l+"/<root> node k"+l+" token=number type=integer value=1")
		}
	}
	for i := range lines {
		if lines[i].t == tEnum {
			l := lines[i].letter
			out = append(out, "enum @"+l+" annotation=e",
				"enum @"+l+" rule key= token=array value=",
				"enum @"+l+"/ rule key= token=number value=1",
				"enum @"+l+"/ rule key= token=string value=two")
		}
	}
	// tags: declared ones first, automatic ones as interactions need them
	var tags []*refTag
	find := func(name string) *refTag {
		for _, t := range tags {
			if t.name == name {
				return t
			}
		}
		return nil
	}
	for i := range lines {
		if lines[i].t == tTag {
			t := &refTag{name: "@" + lines[i].letter, title: "tt"}
			if d := refChild(lines, i, tDescription); d >= 0 {
				t.desc, t.hasDesc = "text "+lines[d].letter, true
			}
			tags = append(tags, t)
		}
	}
	type refInter struct {
		id   string
		body []string
	}
	var inters []refInter
	for i := range lines {
		if !refIsMethod(lines[i].t) {
			continue
		}
		id, path := refInteractionID(lines, i)
		var own []*refTag
		td := refChild(lines, i, tTags)
		if td < 0 && lines[i].parent >= 0 && lines[lines[i].parent].t == tURL {
			td = refChild(lines, lines[i].parent, tTags)
		}
		if td >= 0 {
			own = append(own, find("@"+lines[td].letter))
		} else {
			name := "@" + path[1:]
			t := find(name)
			if t == nil {
				t = &refTag{name: name, title: path}
				tags = append(tags, t)
			}
			own = append(own, t)
		}
		var body []string
		annotation := "<nil>"
		if lines[i].t == tPost {
			annotation = "p"
		}
		switch lines[i].t {
		case tMethod:
			body = append(body, " id="+id+" method=m"+lines[i].letter+" path="+path+" annotation="+annotation)
		case tPost:
			body = append(body, " id="+id+" method=POST path="+path+" annotation="+annotation)
		default:
			body = append(body, " id="+id+" method=GET path="+path+" annotation="+annotation)
		}
		if lines[i].t != tMethod {
			if d := refChild(lines, i, tDescription); d >= 0 {
				body = append(body, " description=text "+lines[d].letter)
			}
		}
		for _, t := range own {
			if t == nil {
				body = append(body, " tag=<undeclared>")
				continue
			}
			body = append(body, " tag="+t.name)
			if lines[i].t == tMethod {
				t.rpc = append(t.rpc, id)
			} else {
				t.http = append(t.http, id)
			}
		}
		if lines[i].t != tMethod {
			if refChild(lines, i, tRequestAny) >= 0 {
				body = append(body, " request body format=binary notation=any")
			}
			if refChild(lines, i, tRequestObj) >= 0 {
				body = append(body, " request body format=json notation=jsight",
					" request node <root> token=object type=object value=",
					" request/<root> node r token=number type=integer value=1")
			}
			for j := range lines {
				if lines[j].parent != i {
					continue
				}
				hdr := ""
				var hdrLines []string
				code := map[int]string{tResp200: "200", tResp404: "404", tRespBare: "201", tRespRef: "200", tRespArr: "200"}[lines[j].t]
				if refChild(lines, j, tHeaders) >= 0 {
					hdr = " headers"
					hdrLines = []string{" response " + code + " headers node <root> token=object type=object value=",
						" response " + code + " headers/<root> node h token=number type=integer value=1"}
				}
				rl := lines[j].letter
				switch lines[j].t {
				case tResp200:
					body = append(body, " response 200 annotation=ok body format=binary notation=any"+hdr)
					body = append(body, hdrLines...)
				case tResp404:
					body = append(body, " response 404 annotation= body format=binary notation=empty"+hdr)
					body = append(body, hdrLines...)
				case tRespBare:
					// the body comes from its Body child ("Body any")
					body = append(body, " response 201 annotation= body format=binary notation=any"+hdr)
					body = append(body, hdrLines...)
				case tRespRef:
					body = append(body, " response 200 annotation= body format=json notation=jsight"+hdr)
					body = append(body, hdrLines...)
					body = append(body, " response 200 node <root> token=reference type=@"+rl+" value=@"+rl, " response 200 usesType @"+rl)
				case tRespArr:
					body = append(body, " response 200 annotation= body format=json notation=jsight"+hdr)
					body = append(body, hdrLines...)
					body = append(body, " response 200 node <root> token=array type=array value=",
						" response 200/<root> node <root> token=reference type=@"+rl+" value=@"+rl, " response 200 usesType @"+rl)
				}
			}
		}
		if lines[i].t == tMethod {
			if refChild(lines, i, tParams) >= 0 {
				body = append(body, " params", " params node <root> token=object type=object value=",
					" params/<root> node p token=number type=integer value=1")
			}
			if r := refChild(lines, i, tResult); r >= 0 {
				rl := lines[r].letter
				body = append(body, " result", " result node <root> token=object type=object value=",
					" result/<root> node r token=reference type=@"+rl+" value=@"+rl, " result usesType @"+rl)
			}
		}
		inters = append(inters, refInter{id, body})
	}
	for _, t := range tags {
		line := "tag " + t.name + " title=" + t.title
		if t.hasDesc {
			line += " description=" + t.desc
		}
		out = append(out, line)
		for _, id := range t.http {
			out = append(out, "tag "+t.name+" has "+id)
		}
		for _, id := range t.rpc {
			out = append(out, "tag "+t.name+" has "+id)
		}
	}
	for _, in := range inters {
		out = append(out, "interaction "+in.id)
		out = append(out, in.body...)
	}
	return out
}
