package core

import (
	"github.com/jsightapi/jsight-api-go-library/internal/verifrt"
)

type refPP struct{ prefix, name string }

// refPathParams: byte-wise splitter. Segments are the maximal runs of non-'/'
// bytes; a segment "{name}" yields (segments up to and including it joined by
// '/', name).
func refPathParams(p string) []refPP {
	var out []refPP
	prefix := ""
	start := 0
	for i := 0; i <= len(p); i++ {
		if i == len(p) || p[i] == '/' {
			if i > start {
				seg := p[start:i]
				if prefix == "" {
					prefix = seg
				} else {
					prefix = prefix + "/" + seg
				}
				if len(seg) >= 2 && seg[0] == '{' && seg[len(seg)-1] == '}' {
					out = append(out, refPP{prefix, seg[1 : len(seg)-1]})
				}
			}
			start = i + 1
		}
	}
	return out
}

// VerifH_PathParameters (C13a): pathParameters equals the reference list;
// PathParameters errs exactly on an empty {} or a repeated name.
func VerifH_PathParameters() {
	n := verifrt.Choice("n", verifrt.Bound("N")+1)
	p := verifrt.String("p", n)
	got := pathParameters(p)
	want := refPathParams(p)
	verifrt.Assert("C13.split.count", len(got) == len(want))
	if len(got) == len(want) {
		for i := range got {
			verifrt.Assert("C13.split.prefix", string(got[i].path) == want[i].prefix)
			verifrt.Assert("C13.split.name", got[i].parameter == want[i].name)
		}
	}
	_, err := PathParameters(p)
	bad := false
	for i := range want {
		if want[i].name == "" {
			bad = true
		}
		for j := 0; j < i; j++ {
			if want[j].name == want[i].name {
				bad = true
			}
		}
	}
	verifrt.Assert("C13.split.error-iff-bad", (err != nil) == bad)
	verifrt.Reach("C13.split.accepted-param", len(want) >= 1 && err == nil)
	verifrt.Reach("C13.split.rejected", err != nil)
}
