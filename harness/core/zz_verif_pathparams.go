package core

import (
	"github.com/jsightapi/jsight-schema-go-library/fs"

	"github.com/jsightapi/jsight-api-go-library/internal/verifrt"
)

type refPP struct{ prefix, name string }

// refPathParams: byte-wise splitter. Segments are the maximal runs of non-'/'
// bytes; a segment "{name}" yields (segments up to and including it joined by
// '/', name).
func refPathParams(p string) []refPP {
	var out []refPP
	prefix := ""
	start := 0
	for i := 0; i <= len(p); i++ {
		if i == len(p) || p[i] == '/' {
			if i > start {
				seg := p[start:i]
				if prefix == "" {
					prefix = seg
				} else {
					prefix = prefix + "/" + seg
				}
				if len(seg) >= 2 && seg[0] == '{' && seg[len(seg)-1] == '}' {
					out = append(out, refPP{prefix, seg[1 : len(seg)-1]})
				}
			}
			start = i + 1
		}
	}
	return out
}

// VerifH_PathParameters (C13a): pathParameters equals the reference list;
// PathParameters errs exactly on an empty {} or a repeated name.
func VerifH_PathParameters() {
	n := verifrt.Choice("n", verifrt.Bound("N")+1)
	p := verifrt.String("p", n)
	got := pathParameters(p)
	want := refPathParams(p)
	verifrt.Assert("C13.split.count", len(got) == len(want))
	if len(got) == len(want) {
		for i := range got {
			verifrt.Assert("C13.split.prefix", string(got[i].path) == want[i].prefix)
			verifrt.Assert("C13.split.name", got[i].parameter == want[i].name)
		}
	}
	_, err := PathParameters(p)
	bad := false
	for i := range want {
		if want[i].name == "" {
			bad = true
		}
		for j := 0; j < i; j++ {
			if want[j].name == want[i].name {
				bad = true
			}
		}
	}
	verifrt.Assert("C13.split.error-iff-bad", (err != nil) == bad)
	verifrt.Reach("C13.split.accepted-param", len(want) >= 1 && err == nil)
	verifrt.Reach("C13.split.rejected", err != nil)
}

func refBefore(prefix string) string {
	for i := len(prefix) - 1; i >= 0; i-- {
		if prefix[i] == '/' {
			return prefix[:i]
		}
	}
	return ""
}

// VerifH_SimilarPaths (C11, "two paths that differ only in a parameter name"):
// after a path p1 (from a small menu) has been registered, a path p2 (N symbolic
// bytes over / { } a b) is refused exactly when the two
// have a parameter at the same place - the same text before it - under different
// names; in particular when they differ only in one parameter name. A path is
// never "similar" to itself.
func VerifH_SimilarPaths() {
	n := verifrt.Bound("N")
	menu := []string{"/a/{a}", "/{a}/b/{b}", "/a/{a}/{b}", "/b", "{b}"}
	p1 := menu[verifrt.Choice("p1", len(menu))]
	p2 := verifrt.String("p2", verifrt.Choice("n2", n+1))
	for i := 0; i < len(p2); i++ {
		c := p2[i]
		verifrt.Assume(c == '/' || c == '{' || c == '}' || c == 'a' || c == 'b')
	}
	core := NewJApiCore(fs.NewFile("t.jst", ""))
	pp1, e1 := PathParameters(p1)
	verifrt.Assume(e1 == nil)
	pp2, e2 := PathParameters(p2)
	verifrt.Assume(e2 == nil)
	verifrt.Assert("C11.similar.first-path-accepted", core.checkSimilarPaths(pp1) == nil)
	err := core.checkSimilarPaths(pp2)
	similar := false
	for _, a := range refPathParams(p1) {
		for _, b := range refPathParams(p2) {
			if refBefore(a.prefix) == refBefore(b.prefix) && a.name != b.name {
				similar = true
			}
		}
	}
	verifrt.Assert("C11.similar.rejected-iff-similar", (err != nil) == similar)
	verifrt.Assert("C11.similar.same-path-twice-accepted", p1 != p2 || err == nil)
	verifrt.Reach("C11.similar.rejected", err != nil)
	verifrt.Reach("C11.similar.accepted-with-params", err == nil && len(pp1) >= 1 && len(pp2) >= 1)
}
