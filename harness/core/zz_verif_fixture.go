package core

import (
	"os"
	"strconv"
	"strings"

	"github.com/jsightapi/jsight-api-go-library/internal/verifrt"
)

// ---- translator validation on the repository's own fixtures ----
//
// The check driver regenerates, on every run, a file zz_verif_fixture_gen.go from
// /repo/testdata: verifFixtureDocs (the text of every single-file .jst fixture of the
// sample), verifFixtureNames, and verifFixtureExpect — the outcome the NATIVE build
// of this very package produced for that text a moment ago (VerifH_FixtureDump).
// VerifH_Fixture then pushes each fixture through the symbolic executor (whole real
// pipeline and the whole real schema library, interpreted from SSA) and asserts that
// the executor computes the same outcome: verdict, message, index, line, quote, and
// the full structural rendering of the catalog. A disagreement can only be an
// encoder bug (or nondeterminism of the code): it does not reproduce natively, so it
// is reported as "unconfirmed counterexample" and makes the check inconclusive —
// nothing the engine says is believed while it disagrees with the compiler.

var (
	verifFixtureDocs   []string
	verifFixtureNames  []string
	verifFixtureExpect []string
)

func verifFixtureOutcome(text string) string {
	core, je := verifRun(text)
	if je != nil {
		return "ERR msg=" + je.Msg + " index=" + strconv.Itoa(int(je.Index())) + " line=" + strconv.Itoa(int(je.Line())) + " quote=" + je.Quote()
	}
	return "OK\n" + strings.Join(verifSig(core.catalog), "\n")
}

// VerifH_FixtureDump is run natively only (by the driver): it writes the outcomes to $VERIF_FIXTURE_OUT.
func VerifH_FixtureDump() {
	if verifrt.Symbolic() {
		return
	}
	out := make([]string, len(verifFixtureDocs))
	for i, d := range verifFixtureDocs {
		func() {
			defer func() {
				if r := recover(); r != nil {
					out[i] = "PANIC"
				}
			}()
			out[i] = verifFixtureOutcome(d)
		}()
	}
	var sb strings.Builder
	for _, o := range out {
		sb.WriteString(strconv.Quote(o) + "\n")
	}
	os.WriteFile(os.Getenv("VERIF_FIXTURE_OUT"), []byte(sb.String()), 0o644)
}

func VerifH_Fixture() {
	n := len(verifFixtureDocs)
	verifrt.Assume(n > 0)
	i := verifrt.Choice("fixture", n)
	verifrt.Note("fixture", verifFixtureNames[i])
	got := verifFixtureOutcome(verifFixtureDocs[i])
	if got != verifFixtureExpect[i] {
		verifrt.Note("engine", got)
		verifrt.Note("native", verifFixtureExpect[i])
	}
	verifrt.Assert("C01.selftest.engine-agrees-with-native", got == verifFixtureExpect[i])
	verifrt.Reach("C01.selftest.accepted", strings.HasPrefix(got, "OK"))
	verifrt.Reach("C01.selftest.rejected", strings.HasPrefix(got, "ERR"))
}
