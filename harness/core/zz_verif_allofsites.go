package core

import (
	"github.com/jsightapi/jsight-api-go-library/catalog"
	"github.com/jsightapi/jsight-api-go-library/internal/verifrt"
)

// ---- C12 at every place a schema can stand: responses, response headers, request, request headers, query, path ----

const (
	sResp204Any = iota
	sResp200
	sResp404Headers
	sRequest
	sRequestHeaders
	sQuery
	sPath
	sCount
)

func verifSiteText(s int, base string) string {
	rule := "{ // {allOf: \"@" + base + "\"}\n"
	switch s {
	case sResp204Any:
		return "204 any"
	case sResp200:
		return "200\n" + rule + "  \"r\": 1\n}"
	case sResp404Headers:
		return "404\n  Headers\n  " + rule + "    \"h\": \"x\"\n  }\n  Body any"
	case sRequest:
		return "Request\n" + rule + "  \"q\": 1\n}"
	case sRequestHeaders:
		return "Request\n  Headers\n  " + rule + "    \"g\": \"x\"\n  }\n  Body any"
	case sQuery:
		return "Query\n" + rule + "  \"w\": 1\n}"
	case sPath:
		return "Path\n" + rule + "  \"own\": 1\n}"
	}
	return ""
}

var verifSiteOwn = map[int]string{sResp200: "r", sResp404Headers: "h", sRequest: "q", sRequestHeaders: "g", sQuery: "w", sPath: "own"}

// verifSiteNodes renders the property list of a schema: key, inheritedFrom.
func verifSiteNodes(s *catalog.Schema) []string {
	var out []string
	if s == nil || s.ContentJSight == nil {
		return out
	}
	for _, c := range s.ContentJSight.Children {
		k := "<nil>"
		if c.Key != nil {
			k = *c.Key
		}
		out = append(out, k+"<"+c.InheritedFrom)
	}
	return out
}

// VerifH_AllOfSites (C12, "used from types, requests, responses, headers, query
// and path schemas"): one method GET /x/{ka}/{own} with K schema-bearing children
// chosen from: 204 any, a 200 body, a 404 with Headers, a Request body, Request
// Headers, Query, Path - each (but the first) an object with an allOf rule naming
// @a {"ka"}, @b {allOf @a, "kb"}, @c {"kc", @k : 2} or @d {allOf @c, "kd"} and one
// own property. In every accepted
// document every such schema lists the inherited properties first, in base order,
// marked with the direct base, then its own property - wherever it stands among
// its siblings.
func VerifH_AllOfSites() {
	k := verifrt.Bound("K")
	text := "JSIGHT 0.3\nTYPE @a\n{\"ka\": 1}\nTYPE @b\n{ // {allOf: \"@a\"}\n  \"kb\": 2\n}\n" +
		// @c has a property whose key is a user type (a family of additional properties), @d inherits from @c
		"TYPE @k\n\"abc\"\nTYPE @c\n{ // {additionalProperties: true}\n  \"kc\": 1,\n  @k : 2\n}\nTYPE @d\n{ // {allOf: \"@c\"}\n  \"kd\": 2\n}\n" +
		"GET /x/{ka}/{own}\n"
	var sites []int
	var bases []string
	for i := 0; i < k; i++ {
		s := verifrt.Choice("site", sCount)
		base := "a"
		if s != sResp204Any && s != sPath {
			// a Path body inheriting anything but "ka" would have a property without a path parameter: another fault
			base = []string{"a", "b", "c", "d"}[verifrt.Choice("base", 4)]
		}
		sites = append(sites, s)
		bases = append(bases, base)
		text += verifSiteText(s, base) + "\n"
	}
	verifrt.Note("doc", text)
	core, je := verifRun(text)
	if je != nil {
		verifrt.Note("diagnostic", je.Msg)
		verifrt.Reach("C12.sites.rejected", true)
		return
	}
	var in *catalog.HTTPInteraction
	core.catalog.Interactions.EachSafe(func(_ catalog.InteractionID, v catalog.Interaction) {
		if h, ok := v.(*catalog.HTTPInteraction); ok {
			in = h
		}
	})
	verifrt.Assert("C12.sites.interaction-present", in != nil)
	if in == nil {
		return
	}
	want := func(i int) []string {
		var w []string
		switch bases[i] {
		case "a":
			w = append(w, "ka<@a")
		case "b":
			w = append(w, "ka<@b", "kb<@b")
		case "c":
			w = append(w, "kc<@c", "@k<@c")
		default:
			w = append(w, "kc<@d", "@k<@d", "kd<@d")
		}
		return append(w, verifSiteOwn[sites[i]]+"<")
	}
	same := func(a, b []string) bool {
		if len(a) != len(b) {
			return false
		}
		for i := range a {
			if a[i] != b[i] {
				return false
			}
		}
		return true
	}
	nResp := 0
	inherited := 0
	for i, s := range sites {
		var got []string
		switch s {
		case sResp204Any:
			nResp++
			continue
		case sResp200:
			verifrt.Assert("C12.sites.response-present", nResp < len(in.Responses) && in.Responses[nResp].Code == "200" && in.Responses[nResp].Body != nil)
			if nResp >= len(in.Responses) || in.Responses[nResp].Body == nil {
				return
			}
			got = verifSiteNodes(in.Responses[nResp].Body.Schema)
			nResp++
		case sResp404Headers:
			verifrt.Assert("C12.sites.response-present", nResp < len(in.Responses) && in.Responses[nResp].Code == "404" && in.Responses[nResp].Headers != nil)
			if nResp >= len(in.Responses) || in.Responses[nResp].Headers == nil {
				return
			}
			got = verifSiteNodes(in.Responses[nResp].Headers.Schema)
			nResp++
		case sRequest:
			verifrt.Assert("C12.sites.request-present", in.Request != nil && in.Request.HTTPRequestBody != nil)
			if in.Request == nil || in.Request.HTTPRequestBody == nil {
				return
			}
			got = verifSiteNodes(in.Request.HTTPRequestBody.Schema)
		case sRequestHeaders:
			verifrt.Assert("C12.sites.request-present", in.Request != nil && in.Request.HTTPRequestHeaders != nil)
			if in.Request == nil || in.Request.HTTPRequestHeaders == nil {
				return
			}
			got = verifSiteNodes(in.Request.HTTPRequestHeaders.Schema)
		case sQuery:
			verifrt.Assert("C12.sites.query-present", in.Query != nil)
			if in.Query == nil {
				return
			}
			got = verifSiteNodes(in.Query.Schema)
		case sPath:
			// path variables are re-assembled per {name} (C13): both parameters bound, the inherited one marked
			verifrt.Assert("C12.sites.path-present", in.PathVariables != nil)
			if in.PathVariables == nil {
				return
			}
			got = verifSiteNodes(&in.PathVariables.Schema)
		}
		verifrt.Note("site", verifSiteText(s, bases[i]))
		verifrt.Assert("C12.sites.inherited-first-marked-then-own", same(got, want(i)))
		inherited++
	}
	verifrt.Reach("C12.sites.accepted-with-inheritance", inherited >= 1)
	verifrt.Reach("C12.sites.accepted-two-sites", inherited >= 2)
}
