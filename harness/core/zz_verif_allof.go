package core

import (
	"github.com/jsightapi/jsight-schema-go-library/bytes"
	"github.com/jsightapi/jsight-schema-go-library/fs"

	"github.com/jsightapi/jsight-api-go-library/directive"
	"github.com/jsightapi/jsight-api-go-library/catalog"
	"github.com/jsightapi/jsight-api-go-library/internal/verifrt"
	"github.com/jsightapi/jsight-api-go-library/notation"
)

var verifTypeNames = []string{"@a", "@b", "@c"}

var verifOwnMenu = [][]string{{}, {"x"}, {"y"}, {"x", "y"}}

var verifPerms3 = [][]int{{0, 1, 2}, {0, 2, 1}, {1, 0, 2}, {1, 2, 0}, {2, 0, 1}, {2, 1, 0}}

// verifBuildTypes fills a fresh core's catalog with the user types, inserted in the given order.
func verifBuildTypes(order []int, own [][]string, bases [][]int) *JApiCore {
	file := fs.NewFile("t.jst", "0123456789")
	core := NewJApiCore(file)
	for _, i := range order {
		sc := &catalog.SchemaContentJSight{TokenType: "object", Type: "object"}
		for _, k := range own[i] {
			key := k
			sc.Children = append(sc.Children, &catalog.SchemaContentJSight{Key: &key, TokenType: "string", Type: "string", ScalarValue: "v"})
		}
		s := catalog.NewSchema(notation.SchemaNotationJSight)
		if len(bases[i]) > 0 {
			var items []catalog.Rule
			for _, b := range bases[i] {
				items = append(items, catalog.Rule{TokenType: catalog.RuleTokenTypeReference, ScalarValue: verifTypeNames[b]})
				s.UsedUserTypes.Add(verifTypeNames[b]) // as the AST conversion does for every allOf name
			}
			sc.Rules = catalog.NewRules([]catalog.Rule{{Key: "allOf", TokenType: catalog.RuleTokenTypeArray, Children: items}})
		}
		s.ContentJSight = sc
		d := directive.New(directive.Type, directive.NewCoords(file, bytes.Index(i), bytes.Index(i)))
		core.catalog.UserTypes.Set(verifTypeNames[i], &catalog.UserType{Schema: s, Directive: *d})
	}
	return core
}

type refProp struct{ key, from string }

// refFlatKeys: every key a type ends up with (own and inherited, transitively).
func refFlatKeys(i int, own [][]string, bases [][]int) []string {
	var out []string
	add := func(k string) {
		for _, o := range out {
			if o == k {
				return
			}
		}
		out = append(out, k)
	}
	for _, b := range bases[i] {
		for _, k := range refFlatKeys(b, own, bases) {
			add(k)
		}
	}
	for _, k := range own[i] {
		add(k)
	}
	return out
}

func refHasKey(ks []string, k string) bool {
	for _, o := range ks {
		if o == k {
			return true
		}
	}
	return false
}

// refOverrides: some own key of type i (or of a type it inherits from) is also inherited.
func refOverrides(i int, own [][]string, bases [][]int) bool {
	for _, b := range bases[i] {
		if refOverrides(b, own, bases) {
			return true
		}
		for _, k := range refFlatKeys(b, own, bases) {
			if refHasKey(own[i], k) {
				return true
			}
		}
	}
	return false
}

func verifProps(core *JApiCore, i int) []refProp {
	ut, _ := core.catalog.UserTypes.Get(verifTypeNames[i])
	var out []refProp
	for _, c := range ut.Schema.ContentJSight.Children {
		out = append(out, refProp{*c.Key, c.InheritedFrom})
	}
	return out
}

// verifAllOfCase draws an acyclic inheritance graph over three types (a type
// may name only later types as bases) with own key sets from {}, {x}, {y}, {x,y}.
func verifAllOfCase() (own [][]string, bases [][]int) {
	own = make([][]string, 3)
	bases = make([][]int, 3)
	for i := 0; i < 3; i++ {
		own[i] = verifOwnMenu[verifrt.Choice("own", len(verifOwnMenu))]
	}
	if verifrt.Choice("b12", 2) == 1 {
		bases[1] = []int{2}
	}
	switch verifrt.Choice("b0", 5) {
	case 1:
		bases[0] = []int{1}
	case 2:
		bases[0] = []int{2}
	case 3:
		bases[0] = []int{1, 2}
	case 4:
		bases[0] = []int{2, 1}
	}
	return
}

// VerifH_AllOf (C12): after ProcessAllOf every object lists, before its own
// properties, every property of every named base (transitively), each exactly
// once and marked with the direct base it was taken from, grouped in the order
// the bases are named and ordered as in the base; overriding is rejected.
func VerifH_AllOf() {
	own, bases := verifAllOfCase()
	// make own key sets of different types distinct letters where wanted: type 2 uses z instead of y
	for i, k := range own[2] {
		if k == "y" {
			own[2] = append(append([]string(nil), own[2][:i]...), "z")
		}
	}
	order := verifPerms3[verifrt.Choice("order", len(verifPerms3))]
	core := verifBuildTypes(order, own, bases)
	je := core.ProcessAllOf()
	overrides := refOverrides(0, own, bases) || refOverrides(1, own, bases)
	verifrt.Assert("C12.override-rejected-iff", (je != nil) == overrides)
	if je != nil {
		verifrt.Reach("C12.rejected", true)
		return
	}
	for i := 0; i < 3; i++ {
		props := verifProps(core, i)
		nOwn := len(own[i])
		// own properties last, in order, unmarked
		verifrt.Assert("C12.own-count", len(props) >= nOwn)
		if len(props) < nOwn {
			return
		}
		inh := props[:len(props)-nOwn]
		for j, k := range own[i] {
			p := props[len(props)-nOwn+j]
			verifrt.Assert("C12.own-last-in-order", p.key == k && p.from == "")
		}
		// inherited: exactly the keys of the bases' flattened lists, each once
		var want []string
		for _, b := range bases[i] {
			for _, k := range refFlatKeys(b, own, bases) {
				if !refHasKey(want, k) {
					want = append(want, k)
				}
			}
		}
		verifrt.Assert("C12.inherited-count", len(inh) == len(want))
		lastBase := -1
		for j, p := range inh {
			verifrt.Assert("C12.inherited-known-key", refHasKey(want, p.key))
			for jj := 0; jj < j; jj++ {
				verifrt.Assert("C12.inherited-once", inh[jj].key != p.key)
			}
			// marked with a direct base that has the key, bases in the order named
			bi := -1
			for x, b := range bases[i] {
				if verifTypeNames[b] == p.from {
					bi = x
				}
			}
			verifrt.Assert("C12.marked-with-direct-base", bi >= 0 && refHasKey(refFlatKeys(bases[i][maxInt(bi, 0)], own, bases), p.key))
			verifrt.Assert("C12.bases-in-order", bi >= lastBase)
			if bi >= 0 {
				// same-base properties keep the base's order
				if j > 0 && inh[j-1].from == p.from {
					fk := refFlatKeys(bases[i][bi], own, bases)
					verifrt.Assert("C12.base-order-kept", refIndex(fk, inh[j-1].key) < refIndex(fk, p.key))
				}
				lastBase = bi
			}
		}
	}
	verifrt.Reach("C12.accepted-with-inheritance", len(bases[0]) > 0 && len(verifProps(core, 0)) > len(own[0]))
}

func maxInt(a, b int) int {
	if a > b {
		return a
	}
	return b
}

func refIndex(ks []string, k string) int {
	for i, o := range ks {
		if o == k {
			return i
		}
	}
	return -1
}

func verifSameSet(a, b []string) bool {
	for _, x := range a {
		if !refHasKey(b, x) {
			return false
		}
	}
	for _, x := range b {
		if !refHasKey(a, x) {
			return false
		}
	}
	return true
}

// VerifH_AllOfOrder (C10a): the result of ProcessAllOf - inherited properties
// and the set of used types of every type - does not depend on the order in
// which the types are declared.
func VerifH_AllOfOrder() {
	own, bases := verifAllOfCase()
	p1 := verifPerms3[0]
	p2 := verifPerms3[verifrt.Choice("order", len(verifPerms3)-1)+1]
	c1 := verifBuildTypes(p1, own, bases)
	c2 := verifBuildTypes(p2, own, bases)
	je1 := c1.ProcessAllOf()
	je2 := c2.ProcessAllOf()
	verifrt.Assert("C10.allof.same-verdict", (je1 == nil) == (je2 == nil))
	if je1 != nil || je2 != nil {
		return
	}
	for i := 0; i < 3; i++ {
		a, b := verifProps(c1, i), verifProps(c2, i)
		verifrt.Assert("C10.allof.same-property-count", len(a) == len(b))
		if len(a) == len(b) {
			for j := range a {
				verifrt.Assert("C10.allof.same-properties", a[j] == b[j])
			}
		}
		u1, _ := c1.catalog.UserTypes.Get(verifTypeNames[i])
		u2, _ := c2.catalog.UserTypes.Get(verifTypeNames[i])
		verifrt.Assert("C10.allof.same-used-types", verifSameSet(u1.Schema.UsedUserTypes.Data(), u2.Schema.UsedUserTypes.Data()))
	}
	verifrt.Reach("C10.allof.compared", len(bases[0]) > 0)
}
