package core

import (
	"strings"

	"github.com/jsightapi/jsight-schema-go-library/bytes"
	"github.com/jsightapi/jsight-schema-go-library/fs"

	"github.com/jsightapi/jsight-api-go-library/catalog"
	"github.com/jsightapi/jsight-api-go-library/directive"
	"github.com/jsightapi/jsight-api-go-library/internal/verifrt"
	"github.com/jsightapi/jsight-api-go-library/notation"
)

var verifTypeNames = []string{"@a", "@b", "@c"}

var verifOwnMenu = [][]string{{}, {"x"}, {"y"}, {"x", "y"}}

var verifPerms3 = [][]int{{0, 1, 2}, {0, 2, 1}, {1, 0, 2}, {1, 2, 0}, {2, 0, 1}, {2, 1, 0}}

// verifBuildTypes fills a fresh core's catalog with the user types, inserted in the given order.
func verifBuildTypes(order []int, own [][]string, bases [][]int) *JApiCore {
	file := fs.NewFile("t.jst", "0123456789")
	core := NewJApiCore(file)
	for _, i := range order {
		sc := &catalog.SchemaContentJSight{TokenType: "object", Type: "object"}
		for _, k := range own[i] {
			key := k
			sc.Children = append(sc.Children, &catalog.SchemaContentJSight{Key: &key, TokenType: "string", Type: "string", ScalarValue: "v"})
		}
		s := catalog.NewSchema(notation.SchemaNotationJSight)
		if len(bases[i]) > 0 {
			var items []catalog.Rule
			for _, b := range bases[i] {
				items = append(items, catalog.Rule{TokenType: catalog.RuleTokenTypeReference, ScalarValue: verifTypeNames[b]})
				s.UsedUserTypes.Add(verifTypeNames[b]) // as the AST conversion does for every allOf name
			}
			sc.Rules = catalog.NewRules([]catalog.Rule{{Key: "allOf", TokenType: catalog.RuleTokenTypeArray, Children: items}})
		}
		s.ContentJSight = sc
		d := directive.New(directive.Type, directive.NewCoords(file, bytes.Index(i), bytes.Index(i)))
		core.catalog.UserTypes.Set(verifTypeNames[i], &catalog.UserType{Schema: s, Directive: *d})
	}
	return core
}

type refProp struct{ key, from string }

// refFlatKeys: every key a type ends up with (own and inherited, transitively).
func refFlatKeys(i int, own [][]string, bases [][]int) []string {
	var out []string
	add := func(k string) {
		for _, o := range out {
			if o == k {
				return
			}
		}
		out = append(out, k)
	}
	for _, b := range bases[i] {
		for _, k := range refFlatKeys(b, own, bases) {
			add(k)
		}
	}
	for _, k := range own[i] {
		add(k)
	}
	return out
}

func refHasKey(ks []string, k string) bool {
	for _, o := range ks {
		if o == k {
			return true
		}
	}
	return false
}

// refOverrides: some own key of type i (or of a type it inherits from) is also inherited.
func refOverrides(i int, own [][]string, bases [][]int) bool {
	for _, b := range bases[i] {
		if refOverrides(b, own, bases) {
			return true
		}
		for _, k := range refFlatKeys(b, own, bases) {
			if refHasKey(own[i], k) {
				return true
			}
		}
	}
	return false
}

func verifProps(core *JApiCore, i int) []refProp {
	ut, _ := core.catalog.UserTypes.Get(verifTypeNames[i])
	var out []refProp
	for _, c := range ut.Schema.ContentJSight.Children {
		out = append(out, refProp{*c.Key, c.InheritedFrom})
	}
	return out
}

// verifAllOfCase draws an acyclic inheritance graph over three types (a type
// may name only later types as bases) with own key sets from {}, {x}, {y}, {x,y}.
func verifAllOfCase() (own [][]string, bases [][]int) {
	own = make([][]string, 3)
	bases = make([][]int, 3)
	for i := 0; i < 3; i++ {
		own[i] = verifOwnMenu[verifrt.Choice("own", len(verifOwnMenu))]
	}
	if verifrt.Choice("b12", 2) == 1 {
		bases[1] = []int{2}
	}
	switch verifrt.Choice("b0", 5) {
	case 1:
		bases[0] = []int{1}
	case 2:
		bases[0] = []int{2}
	case 3:
		bases[0] = []int{1, 2}
	case 4:
		bases[0] = []int{2, 1}
	}
	return
}

// VerifH_AllOf (C12): after ProcessAllOf every object lists, before its own
// properties, every property of every named base (transitively), each exactly
// once and marked with the direct base it was taken from, grouped in the order
// the bases are named and ordered as in the base; overriding is rejected.
func VerifH_AllOf() {
	own, bases := verifAllOfCase()
	// make own key sets of different types distinct letters where wanted: type 2 uses z instead of y
	for i, k := range own[2] {
		if k == "y" {
			own[2] = append(append([]string(nil), own[2][:i]...), "z")
		}
	}
	order := verifPerms3[verifrt.Choice("order", len(verifPerms3))]
	core := verifBuildTypes(order, own, bases)
	je := core.ProcessAllOf()
	overrides := refOverrides(0, own, bases) || refOverrides(1, own, bases)
	verifrt.Assert("C12.override-rejected-iff", (je != nil) == overrides)
	if je != nil {
		verifrt.Reach("C12.rejected", true)
		return
	}
	for i := 0; i < 3; i++ {
		props := verifProps(core, i)
		nOwn := len(own[i])
		// own properties last, in order, unmarked
		verifrt.Assert("C12.own-count", len(props) >= nOwn)
		if len(props) < nOwn {
			return
		}
		inh := props[:len(props)-nOwn]
		for j, k := range own[i] {
			p := props[len(props)-nOwn+j]
			verifrt.Assert("C12.own-last-in-order", p.key == k && p.from == "")
		}
		// inherited: exactly the keys of the bases' flattened lists, each once
		var want []string
		for _, b := range bases[i] {
			for _, k := range refFlatKeys(b, own, bases) {
				if !refHasKey(want, k) {
					want = append(want, k)
				}
			}
		}
		verifrt.Assert("C12.inherited-count", len(inh) == len(want))
		lastBase := -1
		for j, p := range inh {
			verifrt.Assert("C12.inherited-known-key", refHasKey(want, p.key))
			for jj := 0; jj < j; jj++ {
				verifrt.Assert("C12.inherited-once", inh[jj].key != p.key)
			}
			// marked with a direct base that has the key, bases in the order named
			bi := -1
			for x, b := range bases[i] {
				if verifTypeNames[b] == p.from {
					bi = x
				}
			}
			verifrt.Assert("C12.marked-with-direct-base", bi >= 0 && refHasKey(refFlatKeys(bases[i][maxInt(bi, 0)], own, bases), p.key))
			verifrt.Assert("C12.bases-in-order", bi >= lastBase)
			if bi >= 0 {
				// same-base properties keep the base's order
				if j > 0 && inh[j-1].from == p.from {
					fk := refFlatKeys(bases[i][bi], own, bases)
					verifrt.Assert("C12.base-order-kept", refIndex(fk, inh[j-1].key) < refIndex(fk, p.key))
				}
				lastBase = bi
			}
		}
	}
	verifrt.Reach("C12.accepted-with-inheritance", len(bases[0]) > 0 && len(verifProps(core, 0)) > len(own[0]))
}

func maxInt(a, b int) int {
	if a > b {
		return a
	}
	return b
}

func refIndex(ks []string, k string) int {
	for i, o := range ks {
		if o == k {
			return i
		}
	}
	return -1
}

func verifSameSet(a, b []string) bool {
	for _, x := range a {
		if !refHasKey(b, x) {
			return false
		}
	}
	for _, x := range b {
		if !refHasKey(a, x) {
			return false
		}
	}
	return true
}

// VerifH_AllOfOrder (C10a): the result of ProcessAllOf - inherited properties
// and the set of used types of every type - does not depend on the order in
// which the types are declared.
func VerifH_AllOfOrder() {
	own, bases := verifAllOfCase()
	p1 := verifPerms3[0]
	p2 := verifPerms3[verifrt.Choice("order", len(verifPerms3)-1)+1]
	c1 := verifBuildTypes(p1, own, bases)
	c2 := verifBuildTypes(p2, own, bases)
	je1 := c1.ProcessAllOf()
	je2 := c2.ProcessAllOf()
	verifrt.Assert("C10.allof.same-verdict", (je1 == nil) == (je2 == nil))
	if je1 != nil || je2 != nil {
		return
	}
	for i := 0; i < 3; i++ {
		a, b := verifProps(c1, i), verifProps(c2, i)
		verifrt.Assert("C10.allof.same-property-count", len(a) == len(b))
		if len(a) == len(b) {
			for j := range a {
				verifrt.Assert("C10.allof.same-properties", a[j] == b[j])
			}
		}
		u1, _ := c1.catalog.UserTypes.Get(verifTypeNames[i])
		u2, _ := c2.catalog.UserTypes.Get(verifTypeNames[i])
		verifrt.Assert("C10.allof.same-used-types", verifSameSet(u1.Schema.UsedUserTypes.Data(), u2.Schema.UsedUserTypes.Data()))
	}
	verifrt.Reach("C10.allof.compared", len(bases[0]) > 0)
}

// ---- doc-level allOf (real schema library): reference flattening of the type templates ----

func refNextLetter(l string) string {
	switch l {
	case "a":
		return "b"
	case "b":
		return "c"
	}
	return "a"
}

type refNode struct {
	key, token, typ, value, from string
	children                     []refNode
}

func refFindType(lines []refLine, letter string) int {
	for i := range lines {
		if (lines[i].t == tTypeObj || lines[i].t == tTypeAllOf || lines[i].t == tTypeNested) && lines[i].letter == letter {
			return i
		}
	}
	return -1
}

// refTypeChildren: the flattened properties of the type declared by line i (depth-limited: cycles are rejected by the library).
func refTypeChildren(lines []refLine, i int, depth int) ([]refNode, bool) {
	if depth > 4 {
		return nil, false
	}
	l := lines[i].letter
	inherit := func() ([]refNode, bool) {
		n := refNextLetter(l)
		j := refFindType(lines, n)
		if j < 0 {
			return nil, false
		}
		base, ok := refTypeChildren(lines, j, depth+1)
		if !ok {
			return nil, false
		}
		out := make([]refNode, len(base))
		for x := range base {
			out[x] = base[x]
			out[x].from = "@" + n
		}
		return out, true
	}
	num := func(key string) refNode { return refNode{key: key, token: "number", typ: "integer", value: "1"} }
	switch lines[i].t {
	case tTypeObj:
		return []refNode{num("k" + l)}, true
	case tTypeAllOf:
		inh, ok := inherit()
		if !ok {
			return nil, false
		}
		inh2, _ := inherit()
		own := refNode{key: "own" + l, token: "object", typ: "object", children: append(inh2, num("n"+l))}
		return append(inh, own), true
	case tTypeNested:
		inh, ok := inherit()
		if !ok {
			return nil, false
		}
		return []refNode{{key: "nest" + l, token: "object", typ: "object", children: append(inh, num("m"+l))}}, true
	}
	return nil, false
}

func refRenderNodes(prefix string, nodes []refNode, out *[]string) {
	for _, n := range nodes {
		line := prefix + " node " + n.key + " token=" + n.token + " type=" + n.typ + " value=" + n.value
		if n.from != "" {
			line += " inheritedFrom=" + n.from
		}
		*out = append(*out, line)
		refRenderNodes(prefix+"/"+n.key, n.children, out)
	}
}

// VerifH_AllOfDoc (C12, through the real schema library and the whole
// pipeline): in every accepted document of K type declarations - plain objects,
// objects inheriting at the root and in a nested object, objects inheriting
// only in a nested object - every type lists the inherited properties first, in
// base order, marked with the direct base, nested objects expanded as well, in
// every declaration order.
func VerifH_AllOfDoc() {
	verifLetters = 3
	k := verifrt.Bound("K")
	text, lines := verifDocLines([]int{tTypeAllOf, tTypeNested, tTypeObj}, k, true)
	verifrt.Note("doc", text)
	core, je := verifRun(text)
	if je != nil {
		verifrt.Reach("C12.doc.rejected", true)
		return
	}
	inherits := false
	for i := 1; i < len(lines); i++ {
		l := lines[i].letter
		kids, ok := refTypeChildren(lines, i, 0)
		verifrt.Assert("C12.doc.accepted-implies-resolvable-bases", ok)
		if !ok {
			return
		}
		var want []string
		root := "type @" + l
		want = append(want, root+" node <root> token=object type=object value=")
		refRenderNodes(root+"/<root>", kids, &want)
		ut, found := core.catalog.UserTypes.Get("@" + l)
		verifrt.Assert("C12.doc.type-present", found)
		if !found {
			return
		}
		var got []string
		for _, ln := range verifSchemaSig(root, &ut.Schema) {
			if !strings.Contains(ln, " usesType ") && !strings.Contains(ln, " example=") {
				got = append(got, ln)
			}
		}
		verifrt.Note("type", l)
		verifrt.Assert("C12.doc.node-count", len(got) == len(want))
		for x := 0; x < len(got) && x < len(want); x++ {
			verifrt.Assert("C12.doc.node", got[x] == want[x])
		}
		if lines[i].t != tTypeObj {
			inherits = true
		}
	}
	verifrt.Reach("C12.doc.accepted-with-inheritance", inherits)
}

// VerifH_AllOfThreeBases (C12, base order with more than two names in one rule):
// bases @a {pa}, @b {pb, qb}, @c {pc} and a type @d that names all three in one
// allOf rule, in any of the six orders, at the root or in a nested object, declared
// at any of the four places among them. The inherited properties come first, in the
// order the bases are named, each marked with its base, then the own property.
func VerifH_AllOfThreeBases() {
	perms := [][3]int{{0, 1, 2}, {0, 2, 1}, {1, 0, 2}, {1, 2, 0}, {2, 0, 1}, {2, 1, 0}}
	perm := perms[verifrt.Choice("perm", 6)]
	pos := verifrt.Choice("pos", 4)
	nested := verifrt.Choice("nested", 2) == 1
	names := []string{"a", "b", "c"}
	props := [][]string{{"pa"}, {"pb", "qb"}, {"pc"}}
	bases := []string{
		"TYPE @a\n{\n  \"pa\": 1\n}\n",
		"TYPE @b\n{\n  \"pb\": 1,\n  \"qb\": 1\n}\n",
		"TYPE @c\n{\n  \"pc\": 1\n}\n",
	}
	rule := "{allOf: [\"@" + names[perm[0]] + "\", \"@" + names[perm[1]] + "\", \"@" + names[perm[2]] + "\"]}"
	var d string
	if nested {
		d = "TYPE @d\n{\n  \"in\": { // " + rule + "\n    \"own\": 1\n  }\n}\n"
	} else {
		d = "TYPE @d\n{ // " + rule + "\n  \"own\": 1\n}\n"
	}
	text := "JSIGHT 0.3\n"
	for i := 0; i < 4; i++ {
		if i == pos {
			text += d
		}
		if i < 3 {
			text += bases[i]
		}
	}
	verifrt.Note("doc", text)
	core, je := verifRun(text)
	if je != nil {
		verifrt.Note("diagnostic", je.Msg)
	}
	verifrt.Assert("C12.three.accepted", je == nil)
	if je != nil {
		return
	}
	root := "type @d"
	var want []string
	want = append(want, root+" node <root> token=object type=object value=")
	p := root + "/<root>"
	if nested {
		want = append(want, p+" node in token=object type=object value=")
		p += "/in"
	}
	for _, b := range perm {
		for _, k := range props[b] {
			want = append(want, p+" node "+k+" token=number type=integer value=1 inheritedFrom=@"+names[b])
		}
	}
	want = append(want, p+" node own token=number type=integer value=1")
	ut, found := core.catalog.UserTypes.Get("@d")
	verifrt.Assert("C12.three.type-present", found)
	if !found {
		return
	}
	var got []string
	for _, ln := range verifSchemaSig(root, &ut.Schema) {
		if !strings.Contains(ln, " usesType ") && !strings.Contains(ln, " example=") {
			got = append(got, ln)
		}
	}
	for _, ln := range got {
		verifrt.Note("got", ln)
	}
	verifrt.Assert("C12.three.node-count", len(got) == len(want))
	for x := 0; x < len(got) && x < len(want); x++ {
		verifrt.Assert("C12.three.node", got[x] == want[x])
	}
	verifrt.Reach("C12.three.root", !nested)
	verifrt.Reach("C12.three.nested", nested)
}
