package core

import (
	"github.com/jsightapi/jsight-schema-go-library/bytes"
	"github.com/jsightapi/jsight-schema-go-library/fs"

	"github.com/jsightapi/jsight-api-go-library/catalog"
	"github.com/jsightapi/jsight-api-go-library/directive"
	"github.com/jsightapi/jsight-api-go-library/internal/verifrt"
	"github.com/jsightapi/jsight-api-go-library/notation"
)

var verifPathMenu = []string{"/a/{id}", "/a/{id}/b/{nm}", "/c", "/a/{nm}", "/{id}"}

var verifKeyMenu = [][]string{{"id"}, {"nm"}, {"id", "nm"}, {"zz"}}

// refBinding: for an interaction path, the {name} segments for which a Path
// directive declares a property at that prefix, in path order, with the index of the declaring directive.
type refBound struct {
	name string
	decl int
}

// VerifH_PathBinding (C13b): pathVariables of every HTTP interaction lists
// exactly those {name} segments of its path for which some Path directive
// declares a property at that path prefix, in path order, each with the
// declared schema node; a property matching no segment of its directive's path
// and a prefix declared twice are rejected.
func VerifH_PathBinding() {
	file := fs.NewFile("t.jst", "0123456789")
	core := NewJApiCore(file)
	nDecl := verifrt.Choice("decls", 3) // 0..2 Path directives
	type decl struct {
		path string
		keys []string
	}
	var decls []decl
	var nodes [][]*catalog.SchemaContentJSight
	var firstContent *catalog.SchemaContentJSight
	for i := 0; i < nDecl; i++ {
		p := verifPathMenu[verifrt.Choice("dpath", len(verifPathMenu))]
		keys := verifKeyMenu[verifrt.Choice("dkeys", len(verifKeyMenu))]
		// two Path directives whose body is the same user-type reference ("Path @t") share that
		// type's schema content (ExpandRawPathVariableShortcuts assigns ut.Schema)
		shared := i == 1 && verifrt.Choice("same-user-type-body", 2) == 1
		if shared {
			keys = decls[0].keys
		}
		decls = append(decls, decl{p, keys})
		sc := &catalog.SchemaContentJSight{TokenType: "object", Type: "object"}
		var ns []*catalog.SchemaContentJSight
		if shared {
			sc = firstContent
			ns = nodes[0]
		} else {
			for _, k := range keys {
				key := k
				n := &catalog.SchemaContentJSight{Key: &key, TokenType: "string", Type: "string", ScalarValue: "v"}
				sc.Children = append(sc.Children, n)
				ns = append(ns, n)
			}
		}
		if i == 0 {
			firstContent = sc
		}
		nodes = append(nodes, ns)
		s := catalog.NewSchema(notation.SchemaNotationJSight)
		s.ContentJSight = sc
		// the second Path directive may be a pasted copy of the first one (same keyword coordinates:
		// CopyWoParentAndChildren keeps them), or a directive of its own
		at := i + 1
		if i == 1 && verifrt.Choice("pasted-copy", 2) == 1 {
			at = 1
		}
		pd := directive.New(directive.Path, directive.NewCoords(file, bytes.Index(at), bytes.Index(at)))
		pp, err := PathParameters(p)
		verifrt.Assume(err == nil)
		core.rawPathVariables = append(core.rawPathVariables, rawPathVariable{schema: s, parameters: pp, pathDirective: *pd, parentDirective: *pd})
	}
	nInter := verifrt.Choice("inters", 2) + 1
	var ipaths []string
	for i := 0; i < nInter; i++ {
		p := verifPathMenu[verifrt.Choice("ipath", len(verifPathMenu))]
		for _, q := range ipaths {
			verifrt.Assume(q != p)
		}
		ipaths = append(ipaths, p)
		d := directive.New(directive.Get, directive.NewCoords(file, bytes.Index(5+i), bytes.Index(5+i)))
		_ = d.SetNamedParameter("Path", p)
		verifrt.Assume(core.catalog.AddHTTPMethod(*d) == nil)
	}
	je := core.BuildResourceMethodsPathVariables()

	// reference
	fault := false
	declared := map[string]int{} // prefix -> declaring directive
	for di, dc := range decls {
		used := map[string]bool{}
		for _, pp := range refPathParams(dc.path) {
			for _, k := range dc.keys {
				if k == pp.name {
					if _, dup := declared[pp.prefix]; dup {
						fault = true
					}
					declared[pp.prefix] = di
					used[k] = true
				}
			}
		}
		for _, k := range dc.keys {
			if !used[k] {
				fault = true // a property matching no segment
			}
		}
		if fault {
			break
		}
	}
	verifrt.Assert("C13.binding.rejected-iff-fault", (je != nil) == fault)
	if je != nil || fault {
		verifrt.Reach("C13.binding.rejected", true)
		return
	}
	core.catalog.Interactions.EachSafe(func(k catalog.InteractionID, v catalog.Interaction) {
		hi := v.(*catalog.HTTPInteraction)
		var want []refBound
		for _, pp := range refPathParams(string(hi.PathVal)) {
			if di, ok := declared[pp.prefix]; ok {
				want = append(want, refBound{pp.name, di})
			}
		}
		if len(want) == 0 {
			verifrt.Assert("C13.binding.none", hi.PathVariables == nil)
			return
		}
		verifrt.Assert("C13.binding.present", hi.PathVariables != nil)
		if hi.PathVariables == nil {
			return
		}
		got := hi.PathVariables.Schema.ContentJSight.Children
		verifrt.Assert("C13.binding.count", len(got) == len(want))
		for i := 0; i < len(got) && i < len(want); i++ {
			verifrt.Assert("C13.binding.name-in-path-order", *got[i].Key == want[i].name)
			// the declared schema node of that directive
			ok := false
			for _, n := range nodes[want[i].decl] {
				if n == got[i] {
					ok = true
				}
			}
			verifrt.Assert("C13.binding.declared-schema", ok)
		}
		verifrt.Reach("C13.binding.bound", len(got) >= 1)
	})
}

var verifTokenTypes = []string{"object", "array", "string", "number", "boolean", "null", "reference"}

// VerifH_CheckPathSchema (C13c): a Path body that is not a flat, non-empty
// object, or carries one of the three forbidden rules, is rejected.
func VerifH_CheckPathSchema() {
	root := verifTokenTypes[verifrt.Choice("root", len(verifTokenTypes))]
	sc := &catalog.SchemaContentJSight{TokenType: root, Type: root}
	n := verifrt.Choice("children", 3)
	nested := false
	for i := 0; i < n; i++ {
		tt := verifTokenTypes[verifrt.Choice("child", len(verifTokenTypes))]
		key := "k"
		sc.Children = append(sc.Children, &catalog.SchemaContentJSight{Key: &key, TokenType: tt, Type: tt})
		if tt == "object" || tt == "array" {
			nested = true
		}
	}
	ruleNames := []string{"", "additionalProperties", "nullable", "or", "optional"}
	rule := ruleNames[verifrt.Choice("rule", len(ruleNames))]
	if rule != "" {
		sc.Rules = catalog.NewRules([]catalog.Rule{{Key: rule, TokenType: catalog.RuleTokenTypeBoolean, ScalarValue: "true"}})
	}
	s := catalog.NewSchema(notation.SchemaNotationJSight)
	s.ContentJSight = sc
	err := checkPathSchema(s)
	bad := root != "object" || n == 0 || nested || rule == "additionalProperties" || rule == "nullable" || rule == "or"
	verifrt.Assert("C13.pathschema.rejected-iff-bad", (err != nil) == bad)
	verifrt.Reach("C13.pathschema.ok", err == nil)
	verifrt.Reach("C13.pathschema.bad", err != nil)
}

// VerifH_DeterminismPathBinding (C03): building the path variables of the same
// catalog twice gives the same verdict and the same diagnostic under every map
// iteration order.
func VerifH_DeterminismPathBinding() {
	dp := []int{verifrt.Choice("dpath", len(verifPathMenu)), verifrt.Choice("dpath", len(verifPathMenu))}
	dk := []int{verifrt.Choice("dkeys", len(verifKeyMenu)), verifrt.Choice("dkeys", len(verifKeyMenu))}
	ip := verifrt.Choice("ipath", len(verifPathMenu))
	build := func() *JApiCore {
		file := fs.NewFile("t.jst", "0123456789")
		core := NewJApiCore(file)
		for i := 0; i < 2; i++ {
			sc := &catalog.SchemaContentJSight{TokenType: "object", Type: "object"}
			for _, k := range verifKeyMenu[dk[i]] {
				key := k
				sc.Children = append(sc.Children, &catalog.SchemaContentJSight{Key: &key, TokenType: "string", Type: "string", ScalarValue: "v"})
			}
			s := catalog.NewSchema(notation.SchemaNotationJSight)
			s.ContentJSight = sc
			pd := directive.New(directive.Path, directive.NewCoords(file, bytes.Index(i+1), bytes.Index(i+1)))
			pp, err := PathParameters(verifPathMenu[dp[i]])
			verifrt.Assume(err == nil)
			core.rawPathVariables = append(core.rawPathVariables, rawPathVariable{schema: s, parameters: pp, pathDirective: *pd, parentDirective: *pd})
		}
		d := directive.New(directive.Get, directive.NewCoords(file, 5, 5))
		_ = d.SetNamedParameter("Path", verifPathMenu[ip])
		verifrt.Assume(core.catalog.AddHTTPMethod(*d) == nil)
		return core
	}
	je0 := build().BuildResourceMethodsPathVariables()
	je1 := build().BuildResourceMethodsPathVariables()
	verifrt.Assert("C03.pathbinding.same-verdict", (je0 == nil) == (je1 == nil))
	if je0 != nil && je1 != nil {
		verifrt.Note("diagnostic-1", je0.Msg)
		verifrt.Note("diagnostic-2", je1.Msg)
		verifrt.Assert("C03.pathbinding.same-diagnostic", je0.Msg == je1.Msg && je0.Index() == je1.Index())
		verifrt.Reach("C03.pathbinding.rejected", true)
	}
}
