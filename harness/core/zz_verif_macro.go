package core

import (
	"github.com/jsightapi/jsight-api-go-library/internal/verifrt"
)

var verifMenuMacro = []int{tMacro, tPaste, tURL, tGet, tGetPath, tResp200, tResp404, tTypeAny, tTag, tServer}

// a small menu to reach deeper paste graphs (cycles through intermediates, macros pasting macros)
var verifMenuMacroSmall = []int{tMacro, tPaste, tGetPath, tResp200}

// refSubtree: indices of the descendants of line r, in document order.
func refSubtree(lines []refLine, r int) []int {
	var out []int
	for i := r + 1; i < len(lines); i++ {
		p := lines[i].parent
		for p != -1 && p != r {
			p = lines[p].parent
		}
		if p == r {
			out = append(out, i)
		}
	}
	return out
}

func refInMacro(lines []refLine, i int) bool {
	for p := lines[i].parent; p != -1; p = lines[p].parent {
		if lines[p].t == tMacro {
			return true
		}
	}
	return false
}

func refFindMacro(lines []refLine, letter string) int {
	for i := range lines {
		if lines[i].t == tMacro && lines[i].parent == -1 && lines[i].letter == letter {
			return i
		}
	}
	return -1
}

// refExpand appends the body of macro m with nested pastes expanded; ok=false on a missing macro or too deep (cycle).
func refExpand(lines []refLine, m int, depth int, out *[]refLine) bool {
	if depth > 4 {
		return false
	}
	for _, i := range refSubtree(lines, m) {
		if lines[i].t == tPaste {
			mm := refFindMacro(lines, lines[i].letter)
			if mm < 0 || !refExpand(lines, mm, depth+1, out) {
				return false
			}
			continue
		}
		*out = append(*out, refLine{t: lines[i].t, letter: lines[i].letter, parent: -1})
	}
	return true
}

// refInline: the document with every PASTE replaced by the body of the macro it names and the MACRO definitions deleted.
func refInline(lines []refLine) ([]refLine, bool) {
	var out []refLine
	for i := range lines {
		if lines[i].t == tMacro || refInMacro(lines, i) {
			continue
		}
		if lines[i].t == tPaste {
			m := refFindMacro(lines, lines[i].letter)
			if m < 0 || !refExpand(lines, m, 0, &out) {
				return nil, false
			}
			continue
		}
		out = append(out, refLine{t: lines[i].t, letter: lines[i].letter, parent: -1})
	}
	return out, true
}

// refPasteGraphCyclic: some macro reaches itself through PASTE lines in macro bodies.
func refPasteGraphCyclic(lines []refLine) bool {
	for m := range lines {
		if lines[m].t != tMacro || lines[m].parent != -1 {
			continue
		}
		// depth-limited reachability (at most 2 macro names exist)
		frontier := []int{m}
		for step := 0; step < 3; step++ {
			var next []int
			for _, x := range frontier {
				for _, i := range refSubtree(lines, x) {
					if lines[i].t == tPaste {
						mm := refFindMacro(lines, lines[i].letter)
						if mm == m {
							return true
						}
						if mm >= 0 {
							next = append(next, mm)
						}
					}
				}
			}
			frontier = next
		}
	}
	return false
}

// VerifH_PasteEqualsInline (C07): if a document with macros is accepted, the
// document with every PASTE replaced by the macro body and the MACRO
// definitions deleted is accepted too and has the same catalog; PASTE of an
// undefined macro, a duplicate macro name and every paste cycle are rejected
// (in bounded time: the call-depth budget of the engine is the bound).
func VerifH_PasteEqualsInline() {
	k := verifrt.Bound("K")
	menu := verifMenuMacro
	if verifrt.Bound("MENU") >= 1 {
		menu = verifMenuMacroSmall
	}
	if verifrt.Bound("MENU") == 3 {
		// schema-bearing macro bodies (real schema library): ENUM rules and object types inside macros
		menu = []int{tMacro, tPaste, tEnum, tTypeObj, tGetPath, tRespRef}
	}
	if verifrt.Bound("MENU") == 4 {
		// enum-bearing macros pasted several times (real schema library)
		menu = []int{tMacro, tPaste, tEnum}
	}
	if verifrt.Bound("MENU") == 2 {
		verifLetters = 3 // three macro names: cycles behind a macro that is not on them
		menu = []int{tMacro, tPaste}
	}
	text, lines := verifDocLines(menu, k, true)
	verifrt.Note("doc", text)
	core, je := verifRun(text)
	if !refResolveLines(lines) {
		verifrt.Assert("C06.doc.unresolvable-rejected", je != nil)
		return
	}
	// (b) undefined macro, duplicate macro, (c) cycles
	dup := false
	undefined := false
	for i := range lines {
		if lines[i].t == tMacro {
			for j := 0; j < i; j++ {
				if lines[j].t == tMacro && lines[j].letter == lines[i].letter {
					dup = true
				}
			}
		}
		// a PASTE that takes effect: written outside any MACRO definition
		if lines[i].t == tPaste && !refInMacro(lines, i) && refFindMacro(lines, lines[i].letter) < 0 {
			undefined = true
		}
	}
	if dup {
		verifrt.Assert("C07.duplicate-macro-rejected", je != nil)
	}
	if undefined {
		verifrt.Assert("C07.undefined-macro-rejected", je != nil)
	}
	if refPasteGraphCyclic(lines) {
		verifrt.Assert("C07.cycle-rejected", je != nil)
	}
	if je != nil {
		verifrt.Reach("C07.rejected", true)
		return
	}
	inl, ok := refInline(lines)
	verifrt.Assert("C07.accepted-implies-expandable", ok)
	if !ok {
		return
	}
	text2 := verifRender(inl)
	verifrt.Note("inlined", text2)
	core2, je2 := verifRun(text2)
	verifrt.Assert("C07.inlined-accepted", je2 == nil)
	if je2 != nil {
		verifrt.Note("inlined-error", je2.Msg)
		return
	}
	a, b := verifSig(core.catalog), verifSig(core2.catalog)
	verifrt.Assert("C07.same-catalog-size", len(a) == len(b))
	if len(a) == len(b) {
		for i := range a {
			verifrt.Assert("C07.same-catalog-line", a[i] == b[i])
		}
	}
	hasPaste := false
	for i := range lines {
		if lines[i].t == tPaste {
			hasPaste = true
		}
	}
	verifrt.Reach("C07.accepted-with-paste", hasPaste)
	verifrt.Reach("C07.accepted", true)
}

// VerifH_PasteGraph (C07c, C01): every paste graph over M macros. Macro i
// either pastes another macro (symbolic target, any of the M names, itself
// included) or holds a plain method; a final top-level PASTE starts from a
// symbolic macro. Every graph with a cycle - reachable from the top-level
// PASTE or not - must be rejected with a diagnostic within the call-depth
// budget; every acyclic graph must be accepted and equal to its inlined form.
func VerifH_PasteGraph() {
	m := verifrt.Bound("M")
	names := []string{"a", "b", "c", "d"}[:m]
	var lines []refLine
	lines = append(lines, refLine{t: tJsight, parent: -1})
	// the top-level PASTE comes first (use before definition is allowed); written after the
	// macros it would be swallowed by the last macro's implicit body
	start := verifrt.Choice("start", m)
	lines = append(lines, refLine{t: tPaste, letter: names[start], parent: -1})
	target := make([]int, m) // -1: leaf
	for i := 0; i < m; i++ {
		lines = append(lines, refLine{t: tMacro, letter: names[i], parent: -1})
		c := verifrt.Choice("body", m+1)
		if c == m {
			target[i] = -1
			lines = append(lines, refLine{t: tGetPath, letter: names[i], parent: -1})
		} else {
			target[i] = c
			lines = append(lines, refLine{t: tPaste, letter: names[c], parent: -1})
		}
	}
	text := verifRender(lines)
	verifrt.Note("doc", text)
	core, je := verifRun(text)
	// reference: any cycle in the functional graph
	cyclic := false
	for i := 0; i < m; i++ {
		x := i
		for step := 0; step <= m && x >= 0; step++ {
			x = target[x]
			if x == i {
				cyclic = true
			}
		}
	}
	if cyclic {
		verifrt.Assert("C07.graph.cycle-rejected", je != nil)
		verifrt.Reach("C07.graph.cyclic", true)
		return
	}
	verifrt.Assert("C07.graph.acyclic-accepted", je == nil)
	if je != nil {
		verifrt.Note("error", je.Msg)
		return
	}
	if !refResolveLines(lines) {
		verifrt.Assert("C07.graph.resolvable", false)
		return
	}
	inl, ok := refInline(lines)
	verifrt.Assert("C07.graph.expandable", ok)
	if !ok {
		return
	}
	core2, je2 := verifRun(verifRender(inl))
	verifrt.Assert("C07.graph.inlined-accepted", je2 == nil)
	if je2 == nil {
		verifrt.Assert("C07.graph.same-catalog", verifSameSig(verifSig(core.catalog), verifSig(core2.catalog)))
	}
	verifrt.Reach("C07.graph.acyclic", true)
}
