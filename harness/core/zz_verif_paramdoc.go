package core

import (
	"github.com/jsightapi/jsight-api-go-library/catalog"
	"github.com/jsightapi/jsight-api-go-library/internal/verifrt"
)

// ---- C17 through the whole pipeline: scanner, unescaping, catalog ----

func refEscapeParam(v string) string {
	out := "\""
	for i := 0; i < len(v); i++ {
		if v[i] == '"' || v[i] == '\\' {
			out += "\\"
		}
		out += string(v[i])
	}
	return out + "\""
}

var verifParamSeps = []string{"\n", " \n", "\t\n", " // x\n", "\t// x\n", " # c\n", "\t# c\n", ""}

// VerifH_ParameterDoc (C17): a single-line parameter value v, written bare (when
// it needs no quotes) or in double quotes with '"' and '\' escaped, followed by
// any of: line end, blank or TAB and line end, blank or TAB and an annotation,
// blank or TAB and a comment, end of input - is what the catalog holds for it, for
// each parameter-taking host: Title, Version, BaseUrl, JSON-RPC Method name.
//
//	bare:   N bytes over {a b . - @ : / *}, not starting with "//" or "/*"
//	quoted: N bytes over {a blank TAB " \ # / *}, at least one 'a'
func VerifH_ParameterDoc() {
	n := verifrt.Choice("n", verifrt.Bound("N")) + 1
	v := verifrt.String("v", n)
	quoted := verifrt.Choice("quoted", 2) == 1
	hasA := false
	for i := 0; i < n; i++ {
		c := v[i]
		if quoted {
			verifrt.Assume(c == 'a' || c == ' ' || c == '\t' || c == '"' || c == '\\' || c == '#' || c == '/' || c == '*')
		} else {
			verifrt.Assume(c == 'a' || c == 'b' || c == '.' || c == '-' || c == '@' || c == ':' || c == '/' || c == '*')
		}
		if c == 'a' {
			hasA = true
		}
	}
	if quoted {
		verifrt.Assume(hasA)
	} else if n >= 2 {
		verifrt.Assume(!(v[0] == '/' && (v[1] == '/' || v[1] == '*')))
	}
	form := v
	if quoted {
		form = refEscapeParam(v)
	}
	sep := verifParamSeps[verifrt.Choice("sep", len(verifParamSeps))]
	host := verifrt.Choice("host", 4)
	if host != 3 && (sep == " // x\n" || sep == "\t// x\n") {
		verifrt.Stop() // Title, Version and BaseUrl take no annotation (another rule); Method does
	}
	var text string
	switch host {
	case 0:
		text = "JSIGHT 0.3\nINFO\nTitle " + form + sep
	case 1:
		text = "JSIGHT 0.3\nINFO\nVersion " + form + sep
	case 2:
		text = "JSIGHT 0.3\nSERVER @s\nBaseUrl " + form + sep
	default:
		text = "JSIGHT 0.3\nURL /u\nProtocol json-rpc-2.0\nMethod " + form + sep
	}
	verifrt.Note("doc", text)
	core, je := verifRun(text)
	if je != nil {
		verifrt.Note("diagnostic", je.Msg)
	}
	verifrt.Assert("C17.doc.accepted", je == nil)
	if je != nil {
		return
	}
	got := "<absent>"
	switch host {
	case 0:
		if core.catalog.Info != nil {
			got = core.catalog.Info.Title
		}
	case 1:
		if core.catalog.Info != nil {
			got = core.catalog.Info.Version
		}
	case 2:
		if s, ok := core.catalog.Servers.Get("@s"); ok {
			got = s.BaseUrl
		}
	default:
		core.catalog.Interactions.EachSafe(func(_ catalog.InteractionID, x catalog.Interaction) {
			if j, ok := x.(*catalog.JsonRpcInteraction); ok {
				got = j.Method
			}
		})
	}
	verifrt.Note("got", got)
	verifrt.Assert("C17.doc.read-back", got == v)
	verifrt.Reach("C17.doc.quoted", quoted)
	verifrt.Reach("C17.doc.bare", !quoted)
}

// VerifH_ParameterEscapes (C17, the rejection clauses through the whole
// pipeline): between the double quotes stand N raw bytes over {a \ / n}. The text
// is well formed exactly when every backslash is followed by another backslash
// (there is no quote character in the alphabet); then it is read back with each
// pair reduced to one backslash. Otherwise - "a backslash before any other
// character" - the document is rejected, at that character. A lone backslash right
// before the closing quote escapes it: the quote is then unterminated, rejected too.
func VerifH_ParameterEscapes() {
	n := verifrt.Choice("n", verifrt.Bound("N")) + 1
	r := verifrt.String("r", n)
	for i := 0; i < n; i++ {
		c := r[i]
		verifrt.Assume(c == 'a' || c == '\\' || c == '/' || c == 'n')
	}
	// reference
	value := ""
	bad := -1 // offset in r of the character after an offending backslash (n: the closing quote)
	for i := 0; i < n && bad < 0; {
		if r[i] != '\\' {
			value += string(r[i])
			i++
			continue
		}
		if i+1 < n && r[i+1] == '\\' {
			value += "\\"
			i += 2
			continue
		}
		bad = i + 1
	}
	host := verifrt.Choice("host", 3)
	var head string
	switch host {
	case 0:
		head = "JSIGHT 0.3\nINFO\nTitle \""
	case 1:
		head = "JSIGHT 0.3\nSERVER @s\nBaseUrl \""
	default:
		head = "JSIGHT 0.3\nURL /u\nProtocol json-rpc-2.0\nMethod \""
	}
	text := head + r + "\"\n"
	verifrt.Note("doc", text)
	core, je := verifRun(text)
	if bad >= 0 {
		verifrt.Assert("C17.doc.bad-escape-rejected", je != nil)
		if je != nil && bad < n {
			verifrt.Assert("C17.doc.bad-escape-rejected-at-that-byte", int(je.Index()) == len(head)+bad)
		}
		verifrt.Reach("C17.doc.rejected", true)
		return
	}
	verifrt.Assert("C17.doc.accepted", je == nil)
	if je != nil {
		return
	}
	got := "<absent>"
	switch host {
	case 0:
		if core.catalog.Info != nil {
			got = core.catalog.Info.Title
		}
	case 1:
		if s, ok := core.catalog.Servers.Get("@s"); ok {
			got = s.BaseUrl
		}
	default:
		core.catalog.Interactions.EachSafe(func(_ catalog.InteractionID, x catalog.Interaction) {
			if j, ok := x.(*catalog.JsonRpcInteraction); ok {
				got = j.Method
			}
		})
	}
	verifrt.Assert("C17.doc.read-back", got == value)
	verifrt.Reach("C17.doc.escaped-backslash", len(value) < n)
}

// VerifH_ParameterPath (C17, the path clause): a path "/" + v, v being up to N
// bytes, written bare or in double quotes (with '"' and '\' escaped) as the
// parameter of GET (host 0) or of URL with a path-less GET inside (host 1), is -
// whenever the document is accepted - the path of the one interaction the catalog
// holds, byte for byte. Which paths are acceptable is another rule (path syntax);
// it is not asserted here.
//
//	bare:   N bytes over {a b . - /}, not starting with '/' (a bare "//" opens an annotation)
//	quoted: N bytes over {a blank # / " \}
func VerifH_ParameterPath() {
	n := verifrt.Choice("n", verifrt.Bound("N")) + 1
	v := verifrt.String("v", n)
	quoted := verifrt.Choice("quoted", 2) == 1
	for i := 0; i < n; i++ {
		c := v[i]
		if quoted {
			verifrt.Assume(c == 'a' || c == ' ' || c == '#' || c == '/' || c == '"' || c == '\\')
		} else {
			verifrt.Assume(c == 'a' || c == 'b' || c == '.' || c == '-' || c == '/')
		}
	}
	if !quoted {
		verifrt.Assume(v[0] != '/')
	}
	want := "/" + v
	form := want
	if quoted {
		form = refEscapeParam(want)
	}
	host := verifrt.Choice("host", 2)
	var text string
	if host == 0 {
		text = "JSIGHT 0.3\nGET " + form + "\n"
	} else {
		text = "JSIGHT 0.3\nURL " + form + "\nGET\n"
	}
	verifrt.Note("doc", text)
	core, je := verifRun(text)
	if je != nil {
		verifrt.Note("diagnostic", je.Msg)
		verifrt.Reach("C17.path.rejected", true)
		return
	}
	got := "<absent>"
	count := 0
	core.catalog.Interactions.EachSafe(func(_ catalog.InteractionID, x catalog.Interaction) {
		if h, ok := x.(*catalog.HTTPInteraction); ok {
			got = string(h.PathVal)
			count++
		}
	})
	verifrt.Note("got", got)
	verifrt.Assert("C17.path.one-interaction", count == 1)
	verifrt.Assert("C17.path.read-back", got == want)
	verifrt.Reach("C17.path.quoted", quoted)
	verifrt.Reach("C17.path.bare", !quoted)
}
