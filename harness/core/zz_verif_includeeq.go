package core

import (
	"errors"
	"os"

	"github.com/jsightapi/jsight-api-go-library/internal/verifrt"
)

// ---- concrete virtual files for the inclusion-equivalence harness ----

var verifFiles map[string][]byte

func verifStubStatFiles(name string) (os.FileInfo, error) {
	verifStatCalls = append(verifStatCalls, name)
	if name == "/p/d" || name == "/p/e" || name == "/p" || name == "/" {
		return verifFileInfo{dir: true}, nil
	}
	if _, ok := verifFiles[name]; ok {
		return verifFileInfo{dir: false}, nil
	}
	return nil, os.ErrNotExist
}

func verifStubReadFiles(name string) ([]byte, error) {
	verifReadCalls = append(verifReadCalls, name)
	if b, ok := verifFiles[name]; ok {
		return b, nil
	}
	return nil, errors.New("no such file")
}

var verifMenuIncParents = []int{tURLParam, tURL, tGetPath}
var verifMenuIncRun = []int{tGet, tPost, tPathDir, tResp200, tRespRef, tRequestObj, tTypeObj, tEnum}

// VerifH_IncludeEquivalence (C08, textual inclusion): a run R of complete
// children (or complete top-level directives) that occurs at two places of a
// document may be moved into one file and replaced by an INCLUDE of that file at
// both places: verdict and catalog stay the same. The document is
//
//	JSIGHT, P1, R, P2, R      (P1, P2: URL /x/{id} | URL /x | GET /x; R: 1..KR lines)
//
// and the split form is  JSIGHT, P1, INCLUDE inc.jst, P2, INCLUDE inc.jst.
func VerifH_IncludeEquivalence() {
	verifLetters = 2
	kr := verifrt.Choice("kr", verifrt.Bound("KR")) + 1
	var lines []refLine
	lines = append(lines, refLine{t: tJsight, parent: -1})
	p1 := verifMenuIncParents[verifrt.Choice("p1", len(verifMenuIncParents))]
	p2 := verifMenuIncParents[verifrt.Choice("p2", len(verifMenuIncParents))]
	var run []refLine
	for i := 0; i < kr; i++ {
		t := verifMenuIncRun[verifrt.Choice("r", len(verifMenuIncRun))]
		_, l := verifLine(t)
		run = append(run, refLine{t: t, letter: l, parent: -1})
	}
	lines = append(lines, refLine{t: p1, letter: "a", parent: -1})
	lines = append(lines, run...)
	lines = append(lines, refLine{t: p2, letter: "b", parent: -1})
	lines = append(lines, run...)
	inline := verifRender(lines)
	// the run must consist of complete blocks: in the inline document no line of
	// the first copy may adopt P2 or anything after it (P2 is a top-level line)
	if !refResolveLines(lines) {
		verifrt.Stop()
	}
	verifrt.Assume(lines[1+kr+1].parent == -1)
	inc := verifRender(run)
	split := verifRender(lines[:2]) + "INCLUDE inc.jst\n" + verifRender(lines[2+kr:3+kr]) + "INCLUDE inc.jst\n"
	verifFSInit()
	verifFiles = map[string][]byte{verifDir + "/inc.jst": []byte(inc)}
	if verifrt.Bound("NEST") == 1 {
		// one more level: inc.jst only includes inc2.jst, which holds the run
		verifFiles = map[string][]byte{verifDir + "/inc.jst": []byte("INCLUDE inc2.jst\n"), verifDir + "/inc2.jst": []byte(inc)}
	}
	if verifrt.Bound("NEST") == 2 {
		// several files from one place: the first line of the run in inc.jst, the rest in inc2.jst, included one after the other
		first := verifRender(run[:1])
		rest := verifRender(run[1:])
		verifFiles = map[string][]byte{verifDir + "/inc.jst": []byte(first), verifDir + "/inc2.jst": []byte(rest)}
		split = verifRender(lines[:2]) + "INCLUDE inc.jst\nINCLUDE inc2.jst\n" + verifRender(lines[2+kr:3+kr]) + "INCLUDE inc.jst\nINCLUDE inc2.jst\n"
	}
	verifFSWrite(verifFiles)
	verifrt.Note("inline", inline)
	verifrt.Note("split", split)
	verifrt.Note("inc.jst", inc)
	core0, je0 := verifRun(inline)
	core1, je1 := verifRun(split)
	verifrt.Assert("C08.inclusion.same-verdict", (je0 == nil) == (je1 == nil))
	if je0 != nil && je1 != nil {
		verifrt.Assert("C08.inclusion.same-diagnostic", je0.Msg == je1.Msg)
		verifrt.Reach("C08.inclusion.rejected", true)
		return
	}
	if je0 != nil || je1 != nil {
		if je1 != nil {
			verifrt.Note("split-error", je1.Msg)
		}
		if je0 != nil {
			verifrt.Note("inline-error", je0.Msg)
		}
		return
	}
	verifrt.Assert("C08.inclusion.same-catalog", verifSameSig(verifSig(core0.catalog), verifSig(core1.catalog)))
	verifrt.Reach("C08.inclusion.accepted", true)
}
