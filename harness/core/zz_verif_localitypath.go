package core

import (
	"github.com/jsightapi/jsight-api-go-library/catalog"
	"github.com/jsightapi/jsight-api-go-library/internal/verifrt"
)

// ---- C20: a declaration that only reads a type ----

// verifOptSig renders a schema tree with the optional mark of every node (verifSig
// does not show it).
func verifOptSig(p string, c *catalog.SchemaContentJSight, out *[]string) {
	if c == nil {
		return
	}
	key := "<root>"
	if c.Key != nil {
		key = *c.Key
	}
	line := p + " node " + key + " token=" + c.TokenType + " type=" + c.Type + " value=" + c.ScalarValue
	if c.Optional {
		line += " optional"
	}
	*out = append(*out, line)
	for _, ch := range c.Children {
		verifOptSig(p+"/"+key, ch, out)
	}
}

// VerifH_LocalityPathShortcut (C20, a declaration that only reads a type): a
// document declares TYPE @t with a property id (marked optional, marked not
// optional, or unmarked) and possibly a method GET /c/{id} whose Path body is the
// shortcut @t. Adding - before or after - a method GET /a1/{id} with the same
// shortcut keeps the document accepted and leaves the entry of @t (optional marks
// included) and the path variables of the other method as they were.
func VerifH_LocalityPathShortcut() {
	opt := verifrt.Choice("opt", 3)
	other := verifrt.Choice("other", 2) == 1
	first := verifrt.Choice("first", 2) == 1
	rule := ""
	if opt == 0 {
		rule = " // {optional: true}"
	} else if opt == 1 {
		rule = " // {optional: false}"
	}
	base := "TYPE @t\n{\n  \"id\": 1" + rule + "\n}\n"
	if other {
		base += "GET /c/{id}\n  Path\n  @t\n  200 any\n"
	}
	fresh := "GET /a1/{id}\n  Path\n  @t\n  200 any\n"
	text0 := "JSIGHT 0.3\n" + base
	text1 := "JSIGHT 0.3\n" + base + fresh
	if first {
		text1 = "JSIGHT 0.3\n" + fresh + base
	}
	verifrt.Note("doc", text0)
	verifrt.Note("doc+", text1)
	core0, je0 := verifRun(text0)
	if je0 != nil {
		verifrt.Note("error", je0.Msg)
	}
	verifrt.Assert("C20.path.base-accepted", je0 == nil)
	if je0 != nil {
		return
	}
	core1, je1 := verifRun(text1)
	if je1 != nil {
		verifrt.Note("error", je1.Msg)
	}
	verifrt.Assert("C20.path.still-accepted", je1 == nil)
	if je1 != nil {
		return
	}
	sig := func(c *JApiCore) []string {
		var out []string
		if ut, ok := c.catalog.UserTypes.Get("@t"); ok {
			verifOptSig("type @t", ut.Schema.ContentJSight, &out)
		} else {
			out = append(out, "type @t absent")
		}
		c.catalog.Interactions.EachSafe(func(k catalog.InteractionID, v catalog.Interaction) {
			if in, ok := v.(*catalog.HTTPInteraction); ok && string(in.PathVal) == "/c/{id}" {
				out = append(out, "interaction "+k.String())
				if in.PathVariables != nil {
					verifOptSig(" pathVariables", in.PathVariables.Schema.ContentJSight, &out)
				}
			}
		})
		return out
	}
	s0, s1 := sig(core0), sig(core1)
	for _, l := range s0 {
		verifrt.Note("before", l)
	}
	for _, l := range s1 {
		verifrt.Note("after", l)
	}
	verifrt.Assert("C20.path.others-unchanged", verifSameSig(s0, s1))
	verifrt.Reach("C20.path.extended", true)
	verifrt.Reach("C20.path.optional", opt == 0)
}
