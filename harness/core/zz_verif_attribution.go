package core

import (
	"github.com/jsightapi/jsight-api-go-library/internal/verifrt"
)

// ---- C02 / C11: faults that only the schema library notices ----

var verifMenuAttribution = []int{tTypeObj, tTypeAllOf, tGetPath, tRespRef, tRespArr, tTypeAny}

func refDeclaresType(t int) bool {
	return t == tTypeObj || t == tTypeAllOf || t == tTypeNested || t == tTypeAny
}

// VerifH_DiagnosticAttribution (C11, C02): a document whose only fault is a
// dangling user-type reference inside a schema body (a response "@x" or "[@x]"
// or an allOf rule naming a type no TYPE directive declares) is rejected, and the
// diagnostic points into the text of a directive that contains such a reference
// (keyword .. end of its body) - not at some other directive, not at offset 0.
// Bodies go through the real schema library; names are symbolic over {a,b,c}.
func VerifH_DiagnosticAttribution() {
	verifLetters = 3
	k := verifrt.Bound("K")
	text, lines := verifDocLines(verifMenuAttribution, k, true)
	verifrt.Note("doc", text)
	if !refResolveLines(lines) {
		verifrt.Stop()
	}
	// a type declared with the notation "any" has no JSight schema: a JSight body cannot refer to it
	// (the library answers "not found" for it as for an undeclared name)
	declared := map[string]bool{}
	taken := map[string]bool{}
	for _, ln := range lines {
		if refDeclaresType(ln.t) {
			if taken[ln.letter] {
				verifrt.Stop() // duplicate names: another fault (C11 structure harness)
			}
			taken[ln.letter] = true
			declared[ln.letter] = ln.t != tTypeAny
		}
	}
	if len(refFaults(lines)) > 0 {
		verifrt.Stop()
	}
	next := map[string]string{"a": "b", "b": "c", "c": "a"}
	offs := refLineOffsets(lines)
	dangling := make([]bool, len(lines))
	nd := 0
	for i, ln := range lines {
		switch ln.t {
		case tRespRef, tRespArr:
			dangling[i] = !declared[ln.letter]
		case tTypeAllOf:
			dangling[i] = !declared[next[ln.letter]]
		}
		if dangling[i] {
			nd++
		}
	}
	_, je := verifRun(text)
	if nd == 0 {
		verifrt.Reach("C11.dangling.none", je == nil)
		return
	}
	verifrt.Assert("C11.dangling-reference-rejected", je != nil)
	if je == nil {
		return
	}
	verifrt.Note("diagnostic", je.Msg)
	idx := int(je.Index())
	inFaulty := false
	for i := range lines {
		if dangling[i] && idx >= offs[i] && idx < offs[i]+len(verifLineWith(lines[i].t, lines[i].letter)) {
			inFaulty = true
		}
	}
	verifrt.Assert("C02.doc.diagnostic-inside-the-faulty-directive", inFaulty)
	verifrt.Reach("C11.dangling.rejected", true)
}
