package core

import (
	"errors"
	iofs "io/fs"
	"os"
	"path/filepath"
	"strings"
	"time"

	"github.com/jsightapi/jsight-schema-go-library/fs"

	"github.com/jsightapi/jsight-api-go-library/internal/verifrt"
	"github.com/jsightapi/jsight-api-go-library/scanner"
)

// ---- virtual file system (symbolic world only; natively the real os is used
// on a directory tree the replay driver does not create, so replays of these
// harnesses exercise the "absent" outcome unless stated otherwise) ----

type verifFileInfo struct{ dir bool }

func (verifFileInfo) Name() string        { return "x" }
func (verifFileInfo) Size() int64         { return 0 }
func (verifFileInfo) Mode() iofs.FileMode { return 0 }
func (verifFileInfo) ModTime() time.Time  { return time.Time{} }
func (i verifFileInfo) IsDir() bool       { return i.dir }
func (verifFileInfo) Sys() any            { return nil }

var (
	verifStatCalls []string
	verifReadCalls []string
	verifFileBytes []byte
)

// verifDir is the directory of the root file: a fixed virtual path under the
// symbolic engine, a fresh temporary directory in a native replay.
var verifDir = "/p/d"

// verifFSInit prepares the native file system for a replay (no-op symbolically).
func verifFSInit() {
	if verifrt.Symbolic() {
		return
	}
	d, err := os.MkdirTemp("", "verif-fs-")
	if err != nil {
		panic(err)
	}
	verifDir = d
}

// verifFSTarget creates the include target natively the way the stat stub answered
// in the symbolic run: 0 absent, 1 directory, 2 regular file (3: other error, cannot be staged: absent).
func verifFSTarget(rel string, content []byte) {
	if verifrt.Symbolic() {
		return
	}
	switch verifrt.NativeInt("stat#0", 2) {
	case 1:
		_ = os.MkdirAll(verifDir+"/"+rel, 0o755)
	case 2:
		_ = os.WriteFile(verifDir+"/"+rel, content, 0o644)
	}
}

// verifFSWrite writes concrete virtual files natively.
func verifFSWrite(files map[string][]byte) {
	if verifrt.Symbolic() {
		return
	}
	for name, b := range files {
		_ = os.WriteFile(name, b, 0o644)
	}
}

// verifStubStat: os.Stat contract. A path that is the including file's
// directory or one of its ancestors exists and is a directory (the including
// file lies in it); anything else is absent, a directory, a regular file, or
// fails with another error.
func verifStubStat(name string) (os.FileInfo, error) {
	verifStatCalls = append(verifStatCalls, name)
	if name == "/p/d" || name == "/p" || name == "/" {
		return verifFileInfo{dir: true}, nil
	}
	switch verifrt.Choice("stat", 4) {
	case 0:
		return nil, os.ErrNotExist
	case 1:
		return verifFileInfo{dir: true}, nil
	case 2:
		return verifFileInfo{dir: false}, nil
	}
	return nil, errors.New("permission denied")
}

// verifStubReadFile: os.ReadFile contract: fails or returns the virtual file's bytes.
func verifStubReadFile(name string) ([]byte, error) {
	verifReadCalls = append(verifReadCalls, name)
	if verifrt.Choice("read", 2) == 0 {
		return nil, errors.New("unreadable")
	}
	return verifFileBytes, nil
}

// refNameForbidden is the reference predicate of C08: absolute, a '.' or
// '..' component, or a backslash.
func refNameForbidden(s string) bool {
	if s[0] == '/' {
		return true
	}
	start := 0
	for i := 0; i <= len(s); i++ {
		if i == len(s) || s[i] == '/' {
			comp := s[start:i]
			if comp == "." || comp == ".." {
				return true
			}
			start = i + 1
		}
	}
	for i := 0; i < len(s); i++ {
		if s[i] == '\\' {
			return true
		}
	}
	return false
}

// refJoinBelow: dir + "/" + the non-empty components of s.
func refJoinBelow(dir, s string) string {
	out := dir
	start := 0
	for i := 0; i <= len(s); i++ {
		if i == len(s) || s[i] == '/' {
			if i > start {
				out += "/" + s[start:i]
			}
			start = i + 1
		}
	}
	return out
}

// VerifH_IncludePath (C08a): every forbidden INCLUDE name is rejected before
// any file is read, and an accepted name resolves strictly below the directory
// of the including file. The name goes through the real scanner as the
// parameter of a real INCLUDE line.
func VerifH_IncludePath() {
	n := verifrt.Choice("n", verifrt.Bound("N")) + 1
	s := verifrt.String("s", n)
	for i := 0; i < n; i++ {
		c := s[i]
		// bytes that end or quote an unquoted parameter are not part of a bare name
		verifrt.Assume(c != ' ' && c != '\t' && c != '\n' && c != '\r' && c != '#' && c != 0 && c != '"')
	}
	if n >= 2 {
		verifrt.Assume(!(s[0] == '/' && (s[1] == '/' || s[1] == '*'))) // would be an annotation
	}
	verifStatCalls, verifReadCalls = nil, nil
	verifFSInit()
	if !verifrt.Symbolic() {
		// stage the target natively the way the stat stub answered - also for a forbidden name, as long as
		// what it denotes lies inside the temporary project directory (nothing is ever written outside it)
		if c := filepath.Clean(verifDir + "/" + s); strings.HasPrefix(c, verifDir+"/") {
			_ = os.MkdirAll(filepath.Dir(c), 0o755)
			verifFSTarget(c[len(verifDir)+1:], []byte("URL /x"))
		}
	}
	file := fs.NewFile(verifDir+"/root.jst", "INCLUDE "+s)
	core := NewJApiCore(file)
	kw, je := core.scanner.Next()
	verifrt.Assert("C08.path.keyword", je == nil && kw != nil && kw.Type() == scanner.Keyword && isIncludeKeyword(kw))
	path, je := core.getIncludedFilePath(kw)
	if refNameForbidden(s) {
		verifrt.Assert("C08.path.forbidden-rejected", je != nil)
	}
	if je == nil {
		verifrt.Assert("C08.path.below-dir", path == refJoinBelow(verifDir, s) && len(path) > len(verifDir)+1)
	} else {
		verifrt.Assert("C08.path.error-at-keyword", je.Index() == 0)
	}
	verifrt.Assert("C08.path.no-read-in-validation", len(verifReadCalls) == 0)
	for _, p := range verifStatCalls {
		// only the resolved candidate is probed
		verifrt.Assert("C08.path.stat-arg", p == refJoinBelow(verifDir, s) || refNameForbidden(s))
	}
	verifrt.Reach("C08.path.accept", je == nil)
	verifrt.Reach("C08.path.reject", je != nil)
}

// VerifH_IncludeTargetKinds (C08b): absent target, directory, stat failure and
// unreadable file are errors at the INCLUDE keyword; a forbidden name is
// rejected before any file is read; on success the scanner is switched to the
// included file and the includer is on the stack.
func VerifH_IncludeTargetKinds() {
	n := verifrt.Choice("n", verifrt.Bound("N")) + 1
	s := verifrt.String("s", n)
	for i := 0; i < n; i++ {
		c := s[i]
		verifrt.Assume(c != ' ' && c != '\t' && c != '\n' && c != '\r' && c != '#' && c != 0 && c != '"')
	}
	if n >= 2 {
		verifrt.Assume(!(s[0] == '/' && (s[1] == '/' || s[1] == '*')))
	}
	verifStatCalls, verifReadCalls = nil, nil
	verifFileBytes = []byte("URL /x")
	verifFSInit()
	if !verifrt.Symbolic() && !refNameForbidden(s) {
		verifFSTarget(s, verifFileBytes)
	}
	file := fs.NewFile(verifDir+"/root.jst", "INCLUDE "+s)
	core := NewJApiCore(file)
	kw, _ := core.scanner.Next()
	outer := core.scanner
	je := core.processInclude(kw)
	if refNameForbidden(s) {
		verifrt.Assert("C08.kinds.forbidden-no-read", je != nil && len(verifReadCalls) == 0)
	}
	for _, p := range verifReadCalls {
		verifrt.Assert("C08.kinds.read-below-dir", p == refJoinBelow(verifDir, s) && len(p) > len(verifDir)+1)
	}
	if je != nil {
		verifrt.Assert("C08.kinds.error-at-keyword", je.Index() == 0)
		verifrt.Assert("C08.kinds.scanner-unchanged", core.scanner == outer && core.scannersStack.Empty())
	} else {
		verifrt.Assert("C08.kinds.switched", core.scanner != outer && !core.scannersStack.Empty() &&
			core.scanner.File().Name() == refJoinBelow(verifDir, s))
		verifrt.Assert("C08.kinds.read-once", len(verifReadCalls) == 1)
	}
	verifrt.Reach("C08.kinds.ok", je == nil)
	verifrt.Reach("C08.kinds.err", je != nil)
}

// VerifH_IncludeQuoted (C01, C08): a quoted INCLUDE file name - including the
// empty one - never faults; it is either rejected with a diagnostic at the
// keyword or resolves below the directory of the including file.
func VerifH_IncludeQuoted() {
	n := verifrt.Choice("n", verifrt.Bound("N")+1)
	s := verifrt.String("s", n)
	for i := 0; i < n; i++ {
		c := s[i]
		verifrt.Assume(c != '\n' && c != '\r' && c != 0 && c != '"' && c != '\\')
	}
	verifStatCalls, verifReadCalls = nil, nil
	verifFSInit()
	file := fs.NewFile(verifDir+"/root.jst", "INCLUDE \""+s+"\"")
	core := NewJApiCore(file)
	kw, je := core.scanner.Next()
	verifrt.Assert("C08.quoted.keyword", je == nil && kw != nil && isIncludeKeyword(kw))
	path, je := core.getIncludedFilePath(kw)
	if je != nil {
		verifrt.Assert("C08.quoted.error-at-keyword", je.Index() == 0)
	} else {
		verifrt.Assert("C08.quoted.below-dir", len(path) > len(verifDir)+1 && path[:len(verifDir)+1] == verifDir+"/")
	}
	verifrt.Assert("C08.quoted.no-read-in-validation", len(verifReadCalls) == 0)
	verifrt.Reach("C08.quoted.reject", je != nil)
}
