package core

import (
	"github.com/jsightapi/jsight-api-go-library/internal/verifrt"
)

// refNameForbidden is the reference predicate of C08(a): absolute, a '.' or
// '..' component, or a backslash.
func refNameForbidden(s string) bool {
	if s[0] == '/' {
		return true
	}
	// split into '/'-separated components
	start := 0
	for i := 0; i <= len(s); i++ {
		if i == len(s) || s[i] == '/' {
			comp := s[start:i]
			if comp == "." || comp == ".." {
				return true
			}
			start = i + 1
		}
	}
	for i := 0; i < len(s); i++ {
		if s[i] == '\\' {
			return true
		}
	}
	return false
}

// VerifH_IncludeNameValidator: every forbidden name is rejected by the real validator.
func VerifH_IncludeNameValidator() {
	n := verifrt.Choice("n", verifrt.Bound("N")) + 1
	s := verifrt.String("s", n)
	err := validateIncludeFileName(s)
	if refNameForbidden(s) {
		verifrt.Assert("C08.name.forbidden-rejected", err != nil)
	}
	verifrt.Reach("C08.name.accept", err == nil)
	verifrt.Reach("C08.name.reject", err != nil)
}
