package core

import (
	"github.com/jsightapi/jsight-api-go-library/internal/verifrt"
)

func refIsBlankLine(l []byte) bool {
	for _, c := range l {
		if c != ' ' && c != '\t' {
			return false
		}
	}
	return true
}

// refLines splits on LF.
func refLines(b []byte) [][]byte {
	var out [][]byte
	start := 0
	for i := 0; i <= len(b); i++ {
		if i == len(b) || b[i] == '\n' {
			out = append(out, b[start:i])
			start = i + 1
		}
	}
	return out
}

// refCommonIndent: length of the longest blank prefix shared by all non-empty lines.
func refCommonIndent(lines [][]byte) int {
	best := -1
	var first []byte
	for _, l := range lines {
		if len(l) == 0 {
			continue
		}
		n := 0
		for n < len(l) && (l[n] == ' ' || l[n] == '\t') {
			n++
		}
		if best == -1 {
			best = n
			first = l
			continue
		}
		// common prefix with the first non-empty line
		m := 0
		for m < best && m < n && l[m] == first[m] {
			m++
		}
		best = m
	}
	if best < 0 {
		return 0
	}
	return best
}

// VerifH_DescriptionNormal (C15): algebra of the description normaliser on every text of at most N bytes.
func VerifH_DescriptionNormal() {
	n := verifrt.Choice("n", verifrt.Bound("N")+1)
	x := verifrt.Bytes("x", n)
	for i := 0; i < n; i++ {
		// ASCII texts without NUL, VT, FF (the statement's alphabet: letters, blanks, tabs, CR, LF, parentheses, '#')
		verifrt.Assume(x[i] != 0 && x[i] < 0x80 && x[i] != '\v' && x[i] != '\f')
		if verifrt.Bound("ALPHA") == 1 {
			// the small alphabet of the statement: letters, blanks, tabs, CR, LF, parentheses
			c := x[i]
			verifrt.Assume(c == 'a' || c == ' ' || c == '\t' || c == '\r' || c == '\n' || c == '(' || c == ')')
		}
	}
	y, err := description(append([]byte(nil), x...))
	if err != nil {
		verifrt.Reach("C15.desc.rejected", true)
		return
	}
	for i := range y {
		verifrt.Assert("C15.desc.no-cr", y[i] != '\r')
	}
	if len(y) > 0 {
		verifrt.Assert("C15.desc.no-leading-newline", y[0] != '\n')
		last := y[len(y)-1]
		verifrt.Assert("C15.desc.no-trailing-blank", last != '\n' && last != ' ' && last != '\t')
	}
	// normalising twice changes nothing
	z, err2 := description(append([]byte(nil), y...))
	verifrt.Assert("C15.desc.idempotent", err2 == nil && string(z) == string(y))
	// the indentation common to its lines is removed (texts whose first line is not blank)
	lines := refLines(y)
	if len(lines) > 0 && !refIsBlankLine(lines[0]) {
		verifrt.Assert("C15.desc.dedented", refCommonIndent(lines) == 0)
	}
	verifrt.Reach("C15.desc.multiline", len(lines) >= 2)
	verifrt.Reach("C15.desc.empty", len(y) == 0)
}

// VerifH_DescriptionParens (C15): the same text bare or inside parentheses gives the same description.
func VerifH_DescriptionParens() {
	n := verifrt.Choice("n", verifrt.Bound("N")) + 1
	x := verifrt.Bytes("x", n)
	for i := 0; i < n; i++ {
		verifrt.Assume(x[i] != 0 && x[i] != '\r' && x[i] < 0x80 && x[i] != '\v' && x[i] != '\f')
	}
	// the text itself: first and last lines not blank, and it is not itself a parenthesised block
	verifrt.Assume(x[0] != '\n' && x[0] != ' ' && x[0] != '\t' && x[n-1] != '\n' && x[n-1] != ' ' && x[n-1] != '\t')
	verifrt.Assume(!(x[0] == '(' && x[n-1] == ')'))
	bare, err1 := description(append([]byte(nil), x...))
	wrapped := append(append([]byte("(\n"), x...), "\n)"...)
	par, err2 := description(wrapped)
	verifrt.Assert("C15.desc.parens-accepted", err1 == nil && err2 == nil)
	if err1 == nil && err2 == nil {
		verifrt.Assert("C15.desc.parens-same", string(bare) == string(par))
	}
	verifrt.Reach("C15.desc.parens", true)
}
