package core

import (
	"github.com/jsightapi/jsight-api-go-library/catalog"
	"github.com/jsightapi/jsight-api-go-library/internal/verifrt"
)

func refIsBlankLine(l []byte) bool {
	for _, c := range l {
		if c != ' ' && c != '\t' {
			return false
		}
	}
	return true
}

// refLines splits on LF.
func refLines(b []byte) [][]byte {
	var out [][]byte
	start := 0
	for i := 0; i <= len(b); i++ {
		if i == len(b) || b[i] == '\n' {
			out = append(out, b[start:i])
			start = i + 1
		}
	}
	return out
}

// refCommonIndent: length of the longest blank prefix shared by all non-empty lines.
func refCommonIndent(lines [][]byte) int {
	best := -1
	var first []byte
	for _, l := range lines {
		if len(l) == 0 {
			continue
		}
		n := 0
		for n < len(l) && (l[n] == ' ' || l[n] == '\t') {
			n++
		}
		if best == -1 {
			best = n
			first = l
			continue
		}
		// common prefix with the first non-empty line
		m := 0
		for m < best && m < n && l[m] == first[m] {
			m++
		}
		best = m
	}
	if best < 0 {
		return 0
	}
	return best
}

// VerifH_DescriptionNormal (C15): algebra of the description normaliser on every text of at most N bytes.
func VerifH_DescriptionNormal() {
	n := verifrt.Choice("n", verifrt.Bound("N")+1)
	x := verifrt.Bytes("x", n)
	for i := 0; i < n; i++ {
		// ASCII texts without NUL, VT, FF (the statement's alphabet: letters, blanks, tabs, CR, LF, parentheses, '#')
		verifrt.Assume(x[i] != 0 && x[i] < 0x80 && x[i] != '\v' && x[i] != '\f')
		if verifrt.Bound("ALPHA") == 1 {
			// the small alphabet of the statement: letters, blanks, tabs, CR, LF, parentheses
			c := x[i]
			verifrt.Assume(c == 'a' || c == ' ' || c == '\t' || c == '\r' || c == '\n' || c == '(' || c == ')')
		}
	}
	y, err := description(append([]byte(nil), x...))
	if err != nil {
		verifrt.Reach("C15.desc.rejected", true)
		return
	}
	for i := range y {
		verifrt.Assert("C15.desc.no-cr", y[i] != '\r')
	}
	if len(y) > 0 {
		verifrt.Assert("C15.desc.no-leading-newline", y[0] != '\n')
		last := y[len(y)-1]
		verifrt.Assert("C15.desc.no-trailing-blank", last != '\n' && last != ' ' && last != '\t')
	}
	// normalising twice changes nothing - for a result that is not itself of the parenthesised form: a text
	// that begins with '(' and ends with ')' read as a body again is the parenthesised spelling of what is
	// inside (that is syntax, not normalisation: such a text can only be written in parentheses)
	if !(len(y) >= 2 && y[0] == '(' && y[len(y)-1] == ')') {
		z, err2 := description(append([]byte(nil), y...))
		verifrt.Assert("C15.desc.idempotent", err2 == nil && string(z) == string(y))
	}
	// the indentation common to its lines is removed (texts whose first line is not blank)
	lines := refLines(y)
	if len(lines) > 0 && !refIsBlankLine(lines[0]) {
		verifrt.Assert("C15.desc.dedented", refCommonIndent(lines) == 0)
	}
	verifrt.Reach("C15.desc.multiline", len(lines) >= 2)
	verifrt.Reach("C15.desc.empty", len(y) == 0)
}

// VerifH_DescriptionParens (C15): the same text bare or inside parentheses gives the same description.
func VerifH_DescriptionParens() {
	n := verifrt.Choice("n", verifrt.Bound("N")) + 1
	x := verifrt.Bytes("x", n)
	for i := 0; i < n; i++ {
		verifrt.Assume(x[i] != 0 && x[i] != '\r' && x[i] < 0x80 && x[i] != '\v' && x[i] != '\f')
	}
	// the text itself: first and last lines not blank, and it is not itself a parenthesised block
	verifrt.Assume(x[0] != '\n' && x[0] != ' ' && x[0] != '\t' && x[n-1] != '\n' && x[n-1] != ' ' && x[n-1] != '\t')
	verifrt.Assume(!(x[0] == '(' && x[n-1] == ')'))
	bare, err1 := description(append([]byte(nil), x...))
	wrapped := append(append([]byte("(\n"), x...), "\n)"...)
	par, err2 := description(wrapped)
	verifrt.Assert("C15.desc.parens-accepted", err1 == nil && err2 == nil)
	if err1 == nil && err2 == nil {
		verifrt.Assert("C15.desc.parens-same", string(bare) == string(par))
	}
	verifrt.Reach("C15.desc.parens", true)
}

// VerifH_DescriptionDoc (C15 through the whole pipeline): a Description whose
// body is N bytes over {a, blank, TAB, LF}, written bare or inside parentheses,
// under INFO, a TAG, an HTTP method or a JSON-RPC method. A body without any
// visible character is rejected in both spellings; any other body is accepted in
// both and gives the same description, which is what description() computes for
// the bare text.
func VerifH_DescriptionDoc() {
	n := verifrt.Choice("n", verifrt.Bound("N")+1)
	x := verifrt.String("x", n)
	blank := true
	for i := 0; i < n; i++ {
		c := x[i]
		verifrt.Assume(c == 'a' || c == ' ' || c == '\t' || c == '\n')
		if c == 'a' {
			blank = false
		}
	}
	var head string
	host := verifrt.Choice("host", 4)
	switch host {
	case 0:
		head = "JSIGHT 0.3\nINFO\nDescription"
	case 1:
		head = "JSIGHT 0.3\nTAG @t\nDescription"
	case 2:
		head = "JSIGHT 0.3\nGET /g\n200 any\nDescription"
	default:
		head = "JSIGHT 0.3\nURL /u\nProtocol json-rpc-2.0\nMethod m\nDescription"
	}
	get := func(c *JApiCore) string {
		got := "<absent>"
		switch host {
		case 0:
			if c.catalog.Info != nil && c.catalog.Info.Description != nil {
				got = *c.catalog.Info.Description
			}
		case 1:
			if t, ok := c.catalog.Tags.Get("@t"); ok && t.Description != nil {
				got = *t.Description
			}
		default:
			c.catalog.Interactions.EachSafe(func(_ catalog.InteractionID, v catalog.Interaction) {
				switch in := v.(type) {
				case *catalog.HTTPInteraction:
					if in.Description != nil {
						got = *in.Description
					}
				case *catalog.JsonRpcInteraction:
					if in.Description != nil {
						got = *in.Description
					}
				}
			})
		}
		return got
	}
	bareDoc := head + "\n" + x + "\n"
	parDoc := head + "\n(\n" + x + "\n)\n"
	verifrt.Note("bare", bareDoc)
	verifrt.Note("parenthesised", parDoc)
	c0, je0 := verifRun(bareDoc)
	c1, je1 := verifRun(parDoc)
	if blank {
		verifrt.Assert("C15.doc.blank-rejected-bare", je0 != nil)
		verifrt.Assert("C15.doc.blank-rejected-parenthesised", je1 != nil)
		verifrt.Reach("C15.doc.blank", true)
		return
	}
	verifrt.Assert("C15.doc.accepted-bare", je0 == nil)
	verifrt.Assert("C15.doc.accepted-parenthesised", je1 == nil)
	if je0 != nil || je1 != nil {
		return
	}
	d0, d1 := get(c0), get(c1)
	verifrt.Assert("C15.doc.same-in-either-spelling", d0 == d1)
	want, err := description([]byte(x))
	verifrt.Assert("C15.doc.is-the-normalised-text", err == nil && d0 == string(want))
	verifrt.Reach("C15.doc.text", true)
}
