package core

import (
	"strings"

	"github.com/jsightapi/jsight-api-go-library/directive"
	"github.com/jsightapi/jsight-api-go-library/internal/verifrt"
	"github.com/jsightapi/jsight-api-go-library/jerr"
)

// refLineOffsets: byte offset of the keyword of every line in the rendered text.
func refLineOffsets(lines []refLine) []int {
	offs := make([]int, len(lines))
	o := 0
	for i, ln := range lines {
		offs[i] = o
		o += len(verifLineWith(ln.t, ln.letter)) + 1
	}
	return offs
}

type refFault struct {
	what string
	a, b int // the two lines involved (b may equal a)
}

// refFaults: the static faults of C11 that a macro-free document of the structure menu can contain.
func refFaults(lines []refLine) []refFault {
	var ff []refFault
	sameLetter := func(i, j int) bool { return lines[i].letter == lines[j].letter }
	for i := range lines {
		for j := 0; j < i; j++ {
			ti, tj := lines[i].t, lines[j].t
			// duplicate names
			if ti == tj && (ti == tTypeAny || ti == tServer || ti == tTag) && sameLetter(i, j) {
				ff = append(ff, refFault{"duplicate name", j, i})
			}
			// same URL path twice
			if ti == tURL && tj == tURL && sameLetter(i, j) {
				ff = append(ff, refFault{"duplicate URL path", j, i})
			}
			// same method on the same path twice
			if refIsMethod(ti) && refIsMethod(tj) {
				idi, _ := refInteractionID(lines, i)
				idj, _ := refInteractionID(lines, j)
				if idi == idj {
					ff = append(ff, refFault{"duplicate interaction", j, i})
				}
			}
			// second singleton child
			if ti == tj && lines[i].parent == lines[j].parent && lines[i].parent >= 0 {
				switch ti {
				case tTitle, tVersion, tDescription, tProtocol, tBaseURL, tBodyAny, tHeaders:
					ff = append(ff, refFault{"second singleton child", j, i})
				case tTags:
					// a second Tags directive under a method (a URL-level pair only matters to a method that falls back on it)
					if refIsMethod(lines[lines[i].parent].t) {
						ff = append(ff, refFault{"second singleton child", j, i})
					}
				}
			}
			// a blank Title and an ordinary Title are two Titles as well
			if (ti == tTitle || ti == tTitleBlank) && (tj == tTitle || tj == tTitleBlank) && ti != tj && lines[i].parent == lines[j].parent && lines[i].parent >= 0 {
				ff = append(ff, refFault{"second singleton child", j, i})
			}
			if ti == tTitleBlank && tj == tTitleBlank && lines[i].parent == lines[j].parent && lines[i].parent >= 0 {
				ff = append(ff, refFault{"second singleton child", j, i})
			}
		}
		// a required parameter is missing
		switch lines[i].t {
		case tEnumNoName, tServerNoName, tTypeNoName, tTagNoName, tPasteNoName, tMethodNoName:
			ff = append(ff, refFault{"missing required parameter", i, i})
		case tTagsNoName:
			if p := lines[i].parent; p >= 0 && refIsMethod(lines[p].t) {
				ff = append(ff, refFault{"missing required parameter", i, i})
			}
		}
		// a response without any body
		if lines[i].t == tRespBare && refChild(lines, i, tBodyAny) < 0 && lines[i].parent >= 0 {
			ff = append(ff, refFault{"response without body", i, i})
		}
		// Tags naming an undeclared tag
		if lines[i].t == tTags {
			declared := false
			for j := range lines {
				if lines[j].t == tTag && sameLetter(i, j) {
					declared = true
				}
			}
			// the Tags directive takes effect only if a method uses it
			used := false
			p := lines[i].parent
			if p >= 0 && refIsMethod(lines[p].t) {
				used = true
			}
			if p >= 0 && lines[p].t == tURL {
				for j := range lines {
					if lines[j].parent == p && refIsMethod(lines[j].t) && refChild(lines, j, tTags) < 0 {
						used = true
					}
				}
			}
			if !declared && used {
				ff = append(ff, refFault{"undeclared tag", i, i})
			}
		}
	}
	return ff
}

// VerifH_StaticChecks (C11): every document of the structure menu that
// contains one of the listed faults is rejected, and the diagnostic is
// located at (the keyword of) one of the directives of the document.
func VerifH_StaticChecks() {
	k := verifrt.Bound("K")
	menu := verifMenuStructure
	if verifrt.Bound("MENU") == 1 {
		// singleton children and responses: blank titles, bare responses with Body children, headers
		menu = []int{tInfo, tTitle, tTitleBlank, tVersion, tGetPath, tResp200, tRespBare, tBodyAny, tHeaders}
	}
	if verifrt.Bound("MENU") == 2 {
		// directives written without their required name
		menu = []int{tEnumNoName, tServerNoName, tTypeNoName, tTagNoName, tPasteNoName, tTagsNoName, tMethodNoName, tURL, tGetPath, tProtocol, tResp200}
	}
	text, lines := verifDocLines(menu, k, true)
	if !verifBareResponsesWellFormed(lines) {
		verifrt.Stop()
	}
	verifrt.Note("doc", text)
	_, je := verifRun(text)
	if !refResolveLines(lines) {
		verifrt.Assert("C06.doc.unresolvable-rejected", je != nil)
		return
	}
	ff := refFaults(lines)
	if len(ff) == 0 {
		verifrt.Reach("C11.no-fault", true)
		return
	}
	verifrt.Note("fault", ff[0].what)
	verifrt.Assert("C11.fault-rejected", je != nil)
	if je != nil {
		offs := refLineOffsets(lines)
		at := false
		for _, o := range offs {
			if int(je.Index()) == o {
				at = true
			}
		}
		verifrt.Assert("C11.diagnostic-at-a-directive", at)
		verifrt.Assert("C02.doc.diagnostic-at-a-directive", at)
		if last := len(lines) - 1; len(ff) == 1 && ff[0].b == last && ff[0].a != ff[0].b {
			// the document is fine without its last line and that line completes the only fault (a duplicate
			// or a second singleton): the diagnostic is at one of the two directives that make it up
			if _, jePrefix := verifRun(verifRender(lines[:last])); jePrefix == nil {
				verifrt.Assert("C02.doc.diagnostic-at-the-faulty-directive", int(je.Index()) == offs[ff[0].a] || int(je.Index()) == offs[ff[0].b])
				verifrt.Reach("C02.doc.single-fault", true)
			}
		}
		verifrt.Reach("C11.fault-rejected", true)
	}
}

// ---- C18 banned directives ----

var verifMenuBanned = []int{tInfo, tTitle, tServer, tURL, tGet, tPost, tGetPath, tResp200, tTypeAny, tTag, tMacro, tPaste, tIncludeFile, tIncludeMissing}

// VerifH_Banned (C18): with one directive kind banned, a document in which
// that kind occurs (directly, as MACRO / PASTE, as INCLUDE) is rejected with
// the 'directive not allowed' diagnostic located at the first directive of
// that kind - whatever follows it, and before any file is read for it - provided
// the document up to that directive is itself free of faults; a document without
// the banned kind gives exactly the result it gives without the option.
func VerifH_Banned() {
	k := verifrt.Bound("K")
	_, lines := verifDocLines(verifMenuBanned, k, true)
	text := verifRender(lines)
	verifrt.Note("doc", text)
	// the banned set: one kind of the menu or ENUM (which occurs only inside the included file), and with
	// PAIRS=1 a second one
	pick := func(name string) directive.Enumeration {
		c := verifrt.Choice(name, len(verifMenuBanned)+1)
		if c == len(verifMenuBanned) {
			return directive.Enum
		}
		return refKind(verifMenuBanned[c])
	}
	banned := pick("banned")
	set := []directive.Enumeration{banned}
	verifrt.Note("banned", banned.String())
	if verifrt.Bound("PAIRS") == 1 {
		b2 := pick("banned2")
		set = append(set, b2)
		verifrt.Note("banned2", b2.String())
	}
	isBanned := func(k directive.Enumeration) bool {
		for _, b := range set {
			if b == k {
				return true
			}
		}
		return false
	}
	verifFSInit()
	verifFiles = map[string][]byte{verifDir + "/inc.jst": []byte("ENUM @c\n")}
	verifFSWrite(verifFiles)
	first := -1
	viaInclude := false
	for i, ln := range lines {
		if isBanned(refKind(ln.t)) {
			first = i
			break
		}
		if ln.t == tIncludeFile && isBanned(directive.Enum) {
			first, viaInclude = i, true // the banned directive is the first one of the included file
			break
		}
	}
	if first >= 0 {
		// is the document fault-free up to the banned directive?
		_, jePrefix := verifRun(verifRender(lines[:first]))
		if jePrefix != nil {
			verifrt.Stop()
		}
		verifReadCalls = nil
		_, je1 := verifRun(text, WithBannedDirectives(set...))
		verifrt.Assert("C18.banned-rejected", je1 != nil)
		if je1 != nil {
			verifrt.Note("diagnostic", je1.Msg)
			verifrt.Assert("C18.banned-message", strings.Contains(je1.Msg, jerr.DirectiveNotAllowed))
			if viaInclude {
				// at the directive inside the included file (its first byte)
				verifrt.Assert("C18.banned-located", int(je1.Index()) == 0)
			} else {
				verifrt.Assert("C18.banned-located", int(je1.Index()) == refLineOffsets(lines)[first])
			}
		}
		if !viaInclude && refKind(lines[first].t) == directive.Include {
			verifrt.Assert("C18.banned-include-no-file-read", len(verifReadCalls) == 0)
		}
		verifrt.Reach("C18.banned-occurs", true)
		verifrt.Reach("C18.banned-inside-included-file", viaInclude)
		return
	}
	core0, je0 := verifRun(text)
	core1, je1 := verifRun(text, WithBannedDirectives(set...))
	verifrt.Assert("C18.unrelated-same-verdict", (je0 == nil) == (je1 == nil))
	if je0 != nil && je1 != nil {
		verifrt.Assert("C18.unrelated-same-error", je0.Msg == je1.Msg && je0.Index() == je1.Index())
	}
	if je0 == nil && je1 == nil {
		a, b := verifSig(core0.catalog), verifSig(core1.catalog)
		verifrt.Assert("C18.unrelated-same-catalog", verifSameSig(a, b))
		verifrt.Reach("C18.unrelated-accepted", true)
	}
}

// ---- C20 locality ----

const (
	freshServer = iota
	freshTag
	freshType
	freshMacro
	freshMethod
	freshCount
	// with the real schema library only (MENU 1)
	freshEnum     = freshCount
	freshTypeObj  = freshCount + 1
	freshCountLib = freshCount + 2
)

func verifFreshText(kind int) string {
	switch kind {
	case freshServer:
		return "SERVER @a1 // s\n"
	case freshTag:
		return "TAG @a1 // tt\n"
	case freshType:
		return "TYPE @a1 any // t\n"
	case freshMacro:
		return "MACRO @a1\n(\nGET /a1\n)\n"
	case freshMethod:
		return "GET /a1\n200 any // ok\n"
	case freshEnum:
		return "ENUM @a1 // e\n[1, \"two\"]\n"
	case freshTypeObj:
		return "TYPE @a1\n{\"ka1\": 1}\n"
	}
	return ""
}

func refMentionsFresh(s string) bool {
	// fresh names share a string prefix (not a path segment) with the names of the document: @a1, /a1
	return strings.Contains(s, "@a1") || strings.Contains(s, "/a1")
}

// VerifH_Locality (C20): adding to an accepted document a well-formed
// top-level declaration with fresh names (server, tag, type, unused macro, or a
// method on an unrelated path) gives an accepted document whose catalog is the
// old one plus exactly the new entry (and its automatic tag); read backwards:
// deleting an unreferenced declaration removes exactly its entry.
func VerifH_Locality() {
	k := verifrt.Bound("K")
	menu := verifMenuStructure
	if verifrt.Bound("MENU") == 1 {
		// schema-bearing documents (real schema library)
		// (a TAG with an un-parenthesised Description: free text that the next declaration must end)
		menu = []int{tURLParam, tGet, tPathDir, tRespRef, tRequestObj, tTypeObj, tEnum, tTypeAllOf, tGetPath, tTag, tDescription}
	}
	_, lines := verifDocLines(menu, k, true)
	if !refResolveLines(lines) {
		verifrt.Stop()
	}
	text := verifRender(lines)
	verifrt.Note("doc", text)
	core0, je0 := verifRun(text)
	if je0 != nil {
		verifrt.Reach("C20.base-rejected", true)
		return
	}
	// insertion point: before a top-level line (not before the header) or at the end
	pos := verifrt.Choice("pos", len(lines)) + 1
	verifrt.Assume(pos == len(lines) || lines[pos].parent == -1)
	nFresh := freshCount
	if verifrt.Bound("MENU") == 1 {
		nFresh = freshCountLib
	}
	kind := verifrt.Choice("fresh", nFresh)
	text1 := verifRender(lines[:pos]) + verifFreshText(kind) + verifRender(lines[pos:])
	verifrt.Note("doc+", text1)
	core1, je1 := verifRun(text1)
	verifrt.Assert("C20.still-accepted", je1 == nil)
	if je1 != nil {
		verifrt.Note("error", je1.Msg)
		return
	}
	old := verifSig(core0.catalog)
	var kept, added []string
	for _, l := range verifSig(core1.catalog) {
		if refMentionsFresh(l) {
			added = append(added, l)
		} else {
			kept = append(kept, l)
		}
	}
	// the interaction body lines of a fresh method do not mention the fresh name in every line
	if kind == freshMethod {
		var kept2 []string
		skip := false
		for _, l := range verifSig(core1.catalog) {
			if strings.HasPrefix(l, "interaction ") {
				skip = refMentionsFresh(l)
			} else if !strings.HasPrefix(l, " ") {
				skip = false
			}
			if skip || refMentionsFresh(l) {
				continue
			}
			kept2 = append(kept2, l)
		}
		kept = kept2
	}
	verifrt.Assert("C20.others-unchanged", verifSameSig(kept, old))
	switch kind {
	case freshServer, freshTag, freshType:
		verifrt.Assert("C20.one-new-entry", len(added) == 1)
	case freshEnum:
		// the enum line and its value tree (the array and its two items)
		verifrt.Assert("C20.one-new-entry", len(added) == 4)
	case freshTypeObj:
		// the type line, its root node, its one property and its example
		verifrt.Assert("C20.one-new-entry", len(added) == 4)
	case freshMacro:
		verifrt.Assert("C20.unused-macro-adds-nothing", len(added) == 0)
	case freshMethod:
		verifrt.Assert("C20.method-and-its-tag", len(added) >= 3)
	}
	verifrt.Reach("C20.extended", true)
}

// ---- C10 declaration order ----

// VerifH_OrderTopLevel (C10b): swapping two adjacent top-level blocks of a
// document (the JSIGHT header stays first) never changes the verdict and only
// reorders the catalog: the same entries, each with the same content.
func VerifH_OrderTopLevel() {
	k := verifrt.Bound("K")
	menu := verifMenuStructure
	if verifrt.Bound("MENU") == 1 {
		menu = verifMenuMacro
	}
	if verifrt.Bound("MENU") == 2 {
		// user types with allOf chains (root and nested), enums, and a response using a type: real schema library
		verifLetters = 3
		menu = []int{tTypeAllOf, tTypeNested, tTypeObj, tEnum, tGetPath, tRespRef}
	}
	if verifrt.Bound("MENU") == 3 {
		// paths with parameters: a URL block that holds a JSON-RPC method (no HTTP method inside) and HTTP
		// methods with the same first segment under another parameter name ("similar" paths)
		menu = []int{tURLParam, tProtocol, tMethod, tGetNm, tGetPath}
	}
	_, lines := verifDocLines(menu, k, true)
	if !refResolveLines(lines) {
		verifrt.Stop()
	}
	// top-level block starts (excluding the header)
	var starts []int
	for i := 1; i < len(lines); i++ {
		if lines[i].parent == -1 {
			starts = append(starts, i)
		}
	}
	if len(starts) < 2 {
		verifrt.Stop()
	}
	j := verifrt.Choice("swap", len(starts)-1)
	a, b := starts[j], starts[j+1]
	end := len(lines)
	if j+2 < len(starts) {
		end = starts[j+2]
	}
	var perm []refLine
	var from []int // perm[i] is lines[from[i]]
	for i := 0; i < a; i++ {
		from = append(from, i)
	}
	for i := b; i < end; i++ {
		from = append(from, i)
	}
	for i := a; i < b; i++ {
		from = append(from, i)
	}
	for i := end; i < len(lines); i++ {
		from = append(from, i)
	}
	to := make([]int, len(lines))
	for ni, oi := range from {
		perm = append(perm, refLine{t: lines[oi].t, letter: lines[oi].letter, parent: -1})
		to[oi] = ni
	}
	// it is a permutation of declarations only if every line keeps its parent
	if !refResolveLines(perm) {
		verifrt.Stop()
	}
	for ni, oi := range from {
		want := -1
		if lines[oi].parent >= 0 {
			want = to[lines[oi].parent]
		}
		if perm[ni].parent != want {
			verifrt.Stop()
		}
	}
	text0, text1 := verifRender(lines), verifRender(perm)
	verifrt.Note("doc", text0)
	verifrt.Note("permuted", text1)
	core0, je0 := verifRun(text0)
	core1, je1 := verifRun(text1)
	verifrt.Assert("C10.same-verdict", (je0 == nil) == (je1 == nil))
	if je0 != nil || je1 != nil {
		verifrt.Reach("C10.rejected", je0 != nil && je1 != nil)
		return
	}
	s0, s1 := verifSig(core0.catalog), verifSig(core1.catalog)
	// every entry line of one catalog occurs in the other (entries are only reordered);
	// the lists of used types are compared under their own assertion id
	n0, n1 := 0, 0
	for _, l := range s0 {
		if strings.Contains(l, " usesType ") {
			continue
		}
		n0++
		found := false
		for _, m := range s1 {
			if l == m {
				found = true
			}
		}
		verifrt.Assert("C10.same-entries", found)
	}
	for _, m := range s1 {
		if !strings.Contains(m, " usesType ") {
			n1++
		}
	}
	verifrt.Assert("C10.same-size", n0 == n1)
	for _, l := range s0 {
		if !strings.Contains(l, " usesType ") {
			continue
		}
		found := false
		for _, m := range s1 {
			if l == m {
				found = true
			}
		}
		verifrt.Assert("C10.same-used-types", found)
	}
	verifrt.Reach("C10.accepted", true)
}
