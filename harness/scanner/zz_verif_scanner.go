package scanner

import (
	"errors"

	"github.com/jsightapi/jsight-schema-go-library/fs"
	"github.com/jsightapi/jsight-schema-go-library/kit"
	"github.com/jsightapi/jsight-schema-go-library/notations/jschema"
	"github.com/jsightapi/jsight-schema-go-library/rules/enum"

	"github.com/jsightapi/jsight-api-go-library/directive"
	"github.com/jsightapi/jsight-api-go-library/internal/verifrt"
	"github.com/jsightapi/jsight-api-go-library/jerr"
)

// ---- stubs for the schema library's body delimiting (symbolic world only) ----

var (
	verifBodyFile *fs.File
	verifBodies   []verifBody // bodies the stub delimited: offset in the whole file, length
	verifData     []byte
)

type verifBody struct{ at, l int }

type verifKitError struct{ pos uint }

func (e verifKitError) Filename() string          { return "" }
func (e verifKitError) Position() uint            { return e.pos }
func (e verifKitError) Message() string           { return "stub schema error" }
func (e verifKitError) ErrCode() int              { return 1 }
func (e verifKitError) IncorrectUserType() string { return "" }

func verifStubJSchemaFromFile(f *fs.File, oo ...jschema.Option) *jschema.Schema {
	verifBodyFile = f
	return &jschema.Schema{}
}

func verifStubEnumFromFile(f *fs.File) *enum.Enum {
	verifBodyFile = f
	return &enum.Enum{}
}

// contract of Len(): on content of r bytes either (l, nil) with 1 <= l <= r, or an error; r == 0 is always an error.
func verifLen() (uint, error) {
	r := len(verifBodyFile.Content())
	if r == 0 || verifrt.Choice("lenerr", 2) == 1 {
		return 0, errors.New("stub")
	}
	l := verifrt.Choice("len", r) + 1
	if verifData != nil {
		verifBodies = append(verifBodies, verifBody{at: len(verifData) - r, l: l})
	}
	return uint(l), nil
}

func verifStubJSchemaLen(s *jschema.Schema) (uint, error) { return verifLen() }
func verifStubEnumLen(e *enum.Enum) (uint, error)         { return verifLen() }

// contract of ConvertError: an Error whose position lies within the body file.
func verifStubConvertError(f *fs.File, err error) kit.Error {
	return verifKitError{pos: uint(verifrt.Choice("errpos", len(f.Content())+1))}
}

// refRegexEnd: index of the '/' that closes the regular expression opened at
// data[start] == '/': the first '/' not preceded by an odd number of
// backslashes (as the schema library delimits a regex value); -1 if none.
func refRegexEnd(data []byte, start int) int {
	escaped := false
	for i := start + 1; i < len(data); i++ {
		c := data[i]
		switch {
		case escaped:
			escaped = false
		case c == '\\':
			escaped = true
		case c == '/':
			return i
		}
	}
	return -1
}

// ---- reference trivia recogniser (C14) ----

// refTrivia accepts exactly: blanks, line ends, '#' comments to the end of the
// line, '###' block comments, and the annotation delimiters // /* */.
func refTrivia(g []byte, afterAnnotation bool) bool {
	i := 0
	if afterAnnotation && len(g) > 0 && g[0] == '#' {
		// a '#' that ends an annotation always starts a line comment
		for i < len(g) && g[i] != '\n' && g[i] != '\r' {
			i++
		}
	}
	for i < len(g) {
		c := g[i]
		switch {
		case c == ' ' || c == '\t' || c == '\n' || c == '\r':
			i++
		case c == '#':
			if i+2 < len(g) && g[i+1] == '#' && g[i+2] == '#' {
				j := i + 3
				closed := false
				for j+2 < len(g) {
					if g[j] == '#' && g[j+1] == '#' && g[j+2] == '#' {
						closed = true
						break
					}
					j++
				}
				if !closed {
					return false
				}
				i = j + 3
			} else {
				for i < len(g) && g[i] != '\n' && g[i] != '\r' {
					i++
				}
			}
		case c == '/':
			if i+1 < len(g) && (g[i+1] == '/' || g[i+1] == '*') {
				i += 2
			} else {
				return false
			}
		case c == '*':
			if i+1 < len(g) && g[i+1] == '/' {
				i += 2
			} else {
				return false
			}
		default:
			return false
		}
	}
	return true
}

var verifPrefixes = []string{
	0:  "",
	1:  "URL ",
	2:  "URL /a ",
	3:  "URL /a //",
	4:  "URL /a /*",
	5:  "Title \"",
	6:  "Description\n",
	7:  "Description\n(\n",
	8:  "TYPE @a ",
	9:  "TYPE @a regex\n",
	10: "TYPE @a\n",
	11: "ENUM @e\n",
	12: "GET /a\n200 ",
	13: "GET /a\nRequest\n",
	14: "URL /a\n#",
	15: "URL /a\n###",
	16: "URL /a\n(\n",
	17: "Body ",
	18: "Body any\n",
	19: "Query \"a\" ",
	20: "INCLUDE ",
	21: "TAG @t\n",
	22: "Path\n",
	23: "Headers\n",
	24: "URL /a\nMethod x\nParams\n",
	25: "SERVER @s\nBaseUrl ",
	26: "P",
	27: "T",
	28: "URL /a\n)",
	29: "TYPE @a regex\n/",
	30: "200 regex\n/a",
	31: "# a#b#c\nGET /a\n",
	32: "URL /a // n # a#b#c\nGET\n",
}

// VerifH_NextTotal (C01.1, C14, C02b): for every file prefix·x with x of 0..N
// arbitrary bytes, the scanner terminates without fault, every error lies
// within the file, and the lexeme stream is well formed.
func VerifH_NextTotal() {
	prefix := verifPrefixes[verifrt.Bound("P")]
	n := verifrt.Choice("n", verifrt.Bound("N")+1)
	data := append([]byte(prefix), verifrt.Bytes("b", n)...)
	verifData = data
	verifBodies = nil
	file := fs.NewFile("f.jst", data)
	s := NewJApiScanner(file)
	prevEnd := -1
	prevAnnotation := false
	lastKeyword := ""
	count := 0
	for {
		lex, je := s.Next()
		if je != nil {
			verifrt.Assert("C02.scan.error-index-in-file", int(je.Index()) <= len(data))
			verifrt.Reach("C14.scan.error", true)
			return
		}
		if lex == nil {
			break
		}
		count++
		verifrt.Assert("C01.scan.progress", count <= 3*len(data)+8)
		b, e := int(lex.Begin()), int(lex.End())
		// an annotation or text body may be empty: [b, b-1]
		canBeEmpty := lex.Type() == Annotation || lex.Type() == Text
		verifrt.Assert("C14.lexeme.inside", (b <= e || (canBeEmpty && b == e+1)) && e < len(data) && b <= len(data))
		verifrt.Assert("C14.lexeme.increasing", b > prevEnd)
		if !(b <= e+1 && e < len(data) && b <= len(data) && b > prevEnd) {
			return
		}
		verifrt.Assert("C14.gap.trivia", refTrivia(data[prevEnd+1:b], prevAnnotation))
		prevAnnotation = lex.Type() == Annotation
		switch lex.Type() {
		case Text:
			if lastKeyword != "Description" {
				// a regex body is exactly one value: from its opening '/' to the first unescaped '/'
				verifrt.Assert("C14.regex.exact", data[b] == '/' && refRegexEnd(data, b) == e)
			}
		case Keyword:
			lastKeyword = string(lex.Value())
			_, err := directive.NewDirectiveType(string(lex.Value()))
			verifrt.Assert("C14.keyword.known", err == nil)
		case Parameter:
			verifrt.Assert("C14.parameter.nonempty", e >= b)
		case Schema, Enum:
			ok := false
			for _, bd := range verifBodies {
				if bd.at == b && bd.at+bd.l-1 == e {
					ok = true
				}
			}
			// only meaningful against the delimiting stub (natively the real library delimits the body)
			verifrt.Assert("C14.body.exact", ok || !verifrt.Symbolic())
		case ContextExplicitOpening, ContextExplicitClosing:
			verifrt.Assert("C14.context.one-byte", b == e && (data[b] == '(' || data[b] == ')'))
		}
		if e > prevEnd {
			prevEnd = e
		}
	}
	verifrt.Assert("C14.tail.trivia", refTrivia(data[prevEnd+1:], prevAnnotation))
	verifrt.Reach("C14.scan.accepted-nonempty", count > 0)
}

// verifStubUnexpectedChar replaces the message formatting of
// japiErrorUnexpectedChar (utf8 decoding of the offending bytes + Sprintf) in
// the deep instances: same error position, constant message. The real
// function is encoded in the shallow instances.
func verifStubUnexpectedChar(s Scanner, where string, expected string) *jerr.JApiError {
	return s.japiError("invalid character", s.curIndex)
}
