package scanner

import (
	"github.com/jsightapi/jsight-schema-go-library/bytes"
	"github.com/jsightapi/jsight-schema-go-library/fs"

	"github.com/jsightapi/jsight-api-go-library/directive"
	"github.com/jsightapi/jsight-api-go-library/internal/verifrt"
	"github.com/jsightapi/jsight-api-go-library/jerr"
)

var verifFileNames = []string{"/p/a.jst", "/p/b.jst", "/p/c.jst", "/p/d.jst"}

const verifFileContent = "a\nb\nc"

func verifLineOf(at int) int {
	n := 1
	for i := 0; i < at && i < len(verifFileContent); i++ {
		if verifFileContent[i] == '\n' {
			n++
		}
	}
	return n
}

func verifScanners() []*Scanner {
	var ss []*Scanner
	for _, n := range verifFileNames {
		ss = append(ss, NewJApiScanner(fs.NewFile(n, verifFileContent)))
	}
	return ss
}

type refFrame struct {
	file int
	at   int
}

// VerifH_StackInvariant (C08c): from every stack state reachable by pushing
// up to three distinct files (observed only through the API, so the harness
// survives a change of representation), Push of a file that is on the stack is
// refused and changes nothing, any other Push succeeds, Pop returns the top; a
// file popped earlier may be pushed again at any depth. Hence no file is ever
// open twice and no legal inclusion is refused.
func VerifH_StackInvariant() {
	ss := verifScanners()
	st := &Stack{}
	var onStack []int
	used := map[int]bool{}
	// history: pushes and pops in any order (at most 5 operations) to reach the pre-state
	h := verifrt.Choice("history", 6)
	for i := 0; i < h; i++ {
		if verifrt.Choice("hop", 2) == 0 {
			f := verifrt.Choice("f", len(ss))
			err := st.Push(ss[f], bytes.Index(i))
			verifrt.Assert("C08.stack.push-refused-iff-on-stack", (err != nil) == used[f])
			if err == nil {
				used[f] = true
				onStack = append(onStack, f)
			}
		} else {
			top := st.Pop()
			if len(onStack) == 0 {
				verifrt.Assert("C08.stack.pop-empty", top == nil)
			} else {
				last := onStack[len(onStack)-1]
				verifrt.Assert("C08.stack.pop-top", top == ss[last])
				used[last] = false
				onStack = onStack[:len(onStack)-1]
			}
		}
	}
	depth := len(onStack)
	g := verifrt.Choice("g", len(ss))
	err := st.Push(ss[g], 0)
	if used[g] {
		verifrt.Assert("C08.stack.cycle-refused", err == ErrRecursionDetected)
		// refusal keeps the state: the same number of pops empties the stack
		n := 0
		for st.Pop() != nil {
			n++
		}
		verifrt.Assert("C08.stack.refusal-keeps-state", n == depth)
	} else {
		verifrt.Assert("C08.stack.push-ok", err == nil)
		top := st.Pop()
		verifrt.Assert("C08.stack.pop-top", top == ss[g])
	}
	verifrt.Assert("C08.stack.empty-iff", st.Empty() == (depth == 0 || used[g]))
	verifrt.Reach("C08.stack.refused", used[g] && depth > 0)
	verifrt.Reach("C08.stack.grew", !used[g])
}

// VerifH_IncludeTrace (C02d): for every sequence of at most K operations
// Push(file, at) / Pop / "a directive is read here" (ToDirectiveIncludeTracer),
// the trace a directive's tracer adds to an error is exactly the include stack
// as it was when the directive was read: (file, line of the INCLUDE) pairs,
// innermost first. Also: the live stack's own trace, and an existing trace is
// never overwritten.
func VerifH_IncludeTrace() {
	ss := verifScanners()
	k := verifrt.Choice("k", verifrt.Bound("K")) + 1
	st := &Stack{}
	var cur []refFrame
	var tracers []directive.IncludeTracer
	var snaps [][]refFrame
	lastWasTracer := false
	for i := 0; i < k; i++ {
		op := verifrt.Choice("op", 3)
		// histories that repeat a shorter one are skipped: Pop on the empty stack does nothing, and a second
		// tracer right after a tracer sees the very same stack (covered by "directive-twice" below)
		if (op == 1 && len(cur) == 0) || (op == 2 && lastWasTracer) {
			verifrt.Stop()
		}
		lastWasTracer = op == 2
		switch op {
		case 0:
			f := verifrt.Choice("f", verifrt.Bound("F"))
			at := 2 * verifrt.Choice("at", 3) // offsets 0, 2, 4: lines 1, 2, 3
			err := st.Push(ss[f], bytes.Index(at))
			on := false
			for _, fr := range cur {
				if fr.file == f {
					on = true
				}
			}
			verifrt.Assert("C08.stack.push-refused-iff-on-stack", (err != nil) == on)
			if err == nil {
				cur = append(cur, refFrame{f, at})
			}
		case 1:
			if st.Pop() != nil {
				cur = cur[:len(cur)-1]
			}
		case 2:
			tracers = append(tracers, st.ToDirectiveIncludeTracer())
			snaps = append(snaps, append([]refFrame(nil), cur...))
		}
	}
	check := func(id string, je *jerr.JApiError, want []refFrame) {
		paths, lines := jerr.VerifTrace(je)
		verifrt.Assert("C02.trace."+id+".len", len(paths) == len(want))
		if len(paths) != len(want) {
			return
		}
		for j := range want {
			w := want[len(want)-1-j] // innermost first
			verifrt.Assert("C02.trace."+id+".file", paths[j] == verifFileNames[w.file])
			verifrt.Assert("C02.trace."+id+".line", lines[j] == verifLineOf(w.at))
		}
	}
	errFile := fs.NewFile("/p/x.jst", "x")
	for i, tr := range tracers {
		// classify the history for the findings file: was a tracer already handed
		// out while the same file was the innermost includer, with another stack?
		pattern := "first-tracer-for-this-includer"
		for j := 0; j < i; j++ {
			if len(snaps[j]) > 0 && len(snaps[i]) > 0 && snaps[j][len(snaps[j])-1].file == snaps[i][len(snaps[i])-1].file {
				same := len(snaps[j]) == len(snaps[i])
				for x := 0; same && x < len(snaps[i]); x++ {
					if snaps[j][x] != snaps[i][x] {
						same = false
					}
				}
				if !same {
					pattern = "tracer-after-earlier-tracer-from-same-includer-with-different-stack"
				}
			}
		}
		verifrt.Note("pattern", pattern)
		je := jerr.NewJApiError("m", errFile, 0)
		tr.AddIncludeTraceToError(je)
		check("directive", je, snaps[i])
		// a second application must not change the trace
		if len(snaps[i]) > 0 {
			tr.AddIncludeTraceToError(je)
			check("directive-twice", je, snaps[i])
		}
	}
	je := jerr.NewJApiError("m", errFile, 0)
	st.AddIncludeTraceToError(je)
	check("live", je, cur)
	verifrt.Reach("C02.trace.two-tracers-same-file", len(tracers) >= 2 && len(snaps[0]) > 0 && len(snaps[1]) > 0)
	verifrt.Reach("C02.trace.nested", len(cur) >= 2)
}

// VerifH_IncludeTraceTree (C02d, "same file included from several places, several
// files from one place, nesting depth"): the scan of a project is walked as the
// scanner walks it - a directive read in the current file asks for its tracer, an
// INCLUDE pushes the current file with the position of the INCLUDE, scans the
// included file, and pops. The project shape is
//
//	a.jst: [D] INCLUDE x1 [D] INCLUDE x2 [D]        (two INCLUDEs on different lines)
//	x1 = b.jst: [D] [INCLUDE d.jst [D]]
//	x2 = b.jst again or c.jst: [D] INCLUDE d.jst [D]
//	d.jst: D
//
// with every [..] part optional and every INCLUDE line symbolic. The trace each
// directive's tracer adds to an error is exactly the chain of INCLUDEs that is
// really open when the directive is read.
func VerifH_IncludeTraceTree() {
	ss := verifScanners()
	st := &Stack{}
	var cur []refFrame
	var tracers []directive.IncludeTracer
	var snaps [][]refFrame
	d := func() {
		if verifrt.Choice("directive", 2) == 1 {
			tracers = append(tracers, st.ToDirectiveIncludeTracer())
			snaps = append(snaps, append([]refFrame(nil), cur...))
		}
	}
	include := func(from, at int, body func()) {
		err := st.Push(ss[from], bytes.Index(at))
		verifrt.Assert("C08.stack.push-ok", err == nil)
		cur = append(cur, refFrame{from, at})
		body()
		verifrt.Assert("C08.stack.pop-top", st.Pop() == ss[from])
		cur = cur[:len(cur)-1]
	}
	leaf := func() {
		tracers = append(tracers, st.ToDirectiveIncludeTracer())
		snaps = append(snaps, append([]refFrame(nil), cur...))
	}
	l1 := 2 * verifrt.Choice("l1", 2)        // line 1 or 2
	l2 := l1 + 2*(1+verifrt.Choice("l2", 2)) // a later line
	verifrt.Assume(l2 <= 4)
	x2 := 1 + verifrt.Choice("x2", 2) // b.jst again, or c.jst
	d()
	include(0, l1, func() { // a.jst includes b.jst
		d()
		if verifrt.Choice("b-includes-d", 2) == 1 {
			include(1, 2*verifrt.Choice("l4", 3), leaf)
			d()
		}
	})
	d()
	include(0, l2, func() { // a.jst includes x2
		d()
		include(x2, 2*verifrt.Choice("l3", 3), leaf)
		d()
	})
	d()
	check := func(id string, je *jerr.JApiError, want []refFrame) {
		paths, lines := jerr.VerifTrace(je)
		verifrt.Assert("C02.tree."+id+".len", len(paths) == len(want))
		if len(paths) != len(want) {
			return
		}
		for j := range want {
			w := want[len(want)-1-j] // innermost first
			verifrt.Assert("C02.tree."+id+".file", paths[j] == verifFileNames[w.file])
			verifrt.Assert("C02.tree."+id+".line", lines[j] == verifLineOf(w.at))
		}
	}
	errFile := fs.NewFile("/p/x.jst", "x")
	for i, tr := range tracers {
		pattern := "first-tracer-for-this-includer"
		for j := 0; j < i; j++ {
			if len(snaps[j]) > 0 && len(snaps[i]) > 0 && snaps[j][len(snaps[j])-1].file == snaps[i][len(snaps[i])-1].file {
				same := len(snaps[j]) == len(snaps[i])
				for x := 0; same && x < len(snaps[i]); x++ {
					if snaps[j][x] != snaps[i][x] {
						same = false
					}
				}
				if !same {
					pattern = "tracer-after-earlier-tracer-from-same-includer-with-different-stack"
				}
			}
		}
		verifrt.Note("pattern", pattern)
		je := jerr.NewJApiError("m", errFile, 0)
		tr.AddIncludeTraceToError(je)
		check("directive", je, snaps[i])
	}
	verifrt.Reach("C02.tree.depth-two", len(tracers) >= 1)
}
