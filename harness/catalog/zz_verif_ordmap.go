package catalog

import (
	"github.com/jsightapi/jsight-api-go-library/internal/veriflib"
	"github.com/jsightapi/jsight-api-go-library/internal/verifrt"
)

// values are identified by an int tag kept in a side table (pointer identity)

func verifServers() veriflib.OrdMap {
	m := &Servers{}
	objs := map[int]*Server{}
	tag := map[*Server]int{}
	mk := func(v int) *Server {
		if o, ok := objs[v]; ok {
			return o
		}
		o := &Server{}
		objs[v] = o
		tag[o] = v
		return o
	}
	return veriflib.OrdMap{
		Name: "Servers",
		Init: func(keys []string, vals []int) {
			m.data = map[string]*Server{}
			for i, k := range keys {
				m.data[k] = mk(vals[i])
				m.order = append(m.order, k)
			}
		},
		Order: func() []string { return append([]string(nil), m.order...) },
		Data: func() map[string]int {
			r := map[string]int{}
			for k, v := range m.data {
				r[k] = tag[v]
			}
			return r
		},
		Set:      func(k string, v int) { m.Set(k, mk(v)) },
		SetToTop: func(k string, v int) { m.SetToTop(k, mk(v)) },
		Update: func(k string, v int) {
			m.Update(k, func(*Server) *Server {
				verifrt.Assert("C16.ordmap.update-callback-under-write-lock", verifrt.WriteLocked())
				return mk(v)
			})
		},
		Get: func(k string) (int, bool) {
			o, ok := m.Get(k)
			return tag[o], ok
		},
		GetValue: func(k string) int { return tag[m.GetValue(k)] },
		Has:      m.Has,
		Len:      m.Len,
		Each: func(visit func(string, int)) {
			_ = m.Each(func(k string, v *Server) error { visit(k, tag[v]); return nil })
		},
		EachRev: func(visit func(string, int)) {
			_ = m.EachReverse(func(k string, v *Server) error { visit(k, tag[v]); return nil })
		},
		Map: func(f func(string, int) int) {
			_ = m.Map(func(k string, v *Server) (*Server, error) { return mk(f(k, tag[v])), nil })
		},
		Track: func() { verifrt.Track(m) },
	}
}

func verifTags() veriflib.OrdMap {
	m := &Tags{}
	objs := map[int]*Tag{}
	tag := map[*Tag]int{}
	mk := func(v int) *Tag {
		if o, ok := objs[v]; ok {
			return o
		}
		o := &Tag{}
		objs[v] = o
		tag[o] = v
		return o
	}
	return veriflib.OrdMap{
		Name: "Tags",
		Init: func(keys []string, vals []int) {
			m.data = map[TagName]*Tag{}
			for i, k := range keys {
				m.data[TagName(k)] = mk(vals[i])
				m.order = append(m.order, TagName(k))
			}
		},
		Order: func() []string {
			var r []string
			for _, k := range m.order {
				r = append(r, string(k))
			}
			return r
		},
		Data: func() map[string]int {
			r := map[string]int{}
			for k, v := range m.data {
				r[string(k)] = tag[v]
			}
			return r
		},
		Set:      func(k string, v int) { m.Set(TagName(k), mk(v)) },
		SetToTop: func(k string, v int) { m.SetToTop(TagName(k), mk(v)) },
		Update: func(k string, v int) {
			m.Update(TagName(k), func(*Tag) *Tag {
				verifrt.Assert("C16.ordmap.update-callback-under-write-lock", verifrt.WriteLocked())
				return mk(v)
			})
		},
		Get: func(k string) (int, bool) {
			o, ok := m.Get(TagName(k))
			return tag[o], ok
		},
		GetValue: func(k string) int { return tag[m.GetValue(TagName(k))] },
		Has:      func(k string) bool { return m.Has(TagName(k)) },
		Len:      m.Len,
		Each: func(visit func(string, int)) {
			_ = m.Each(func(k TagName, v *Tag) error { visit(string(k), tag[v]); return nil })
		},
		EachRev: func(visit func(string, int)) {
			_ = m.EachReverse(func(k TagName, v *Tag) error { visit(string(k), tag[v]); return nil })
		},
		Map: func(f func(string, int) int) {
			_ = m.Map(func(k TagName, v *Tag) (*Tag, error) { return mk(f(string(k), tag[v])), nil })
		},
		Track: func() { verifrt.Track(m) },
	}
}

func verifUserTypes() veriflib.OrdMap {
	m := &UserTypes{}
	objs := map[int]*UserType{}
	tag := map[*UserType]int{}
	mk := func(v int) *UserType {
		if o, ok := objs[v]; ok {
			return o
		}
		o := &UserType{}
		objs[v] = o
		tag[o] = v
		return o
	}
	return veriflib.OrdMap{
		Name: "UserTypes",
		Init: func(keys []string, vals []int) {
			m.data = map[string]*UserType{}
			for i, k := range keys {
				m.data[k] = mk(vals[i])
				m.order = append(m.order, k)
			}
		},
		Order: func() []string { return append([]string(nil), m.order...) },
		Data: func() map[string]int {
			r := map[string]int{}
			for k, v := range m.data {
				r[k] = tag[v]
			}
			return r
		},
		Set:      func(k string, v int) { m.Set(k, mk(v)) },
		SetToTop: func(k string, v int) { m.SetToTop(k, mk(v)) },
		Update: func(k string, v int) {
			m.Update(k, func(*UserType) *UserType {
				verifrt.Assert("C16.ordmap.update-callback-under-write-lock", verifrt.WriteLocked())
				return mk(v)
			})
		},
		Get: func(k string) (int, bool) {
			o, ok := m.Get(k)
			return tag[o], ok
		},
		GetValue: func(k string) int { return tag[m.GetValue(k)] },
		Has:      m.Has,
		Len:      m.Len,
		Each: func(visit func(string, int)) {
			_ = m.Each(func(k string, v *UserType) error { visit(k, tag[v]); return nil })
		},
		EachRev: func(visit func(string, int)) {
			_ = m.EachReverse(func(k string, v *UserType) error { visit(k, tag[v]); return nil })
		},
		Map: func(f func(string, int) int) {
			_ = m.Map(func(k string, v *UserType) (*UserType, error) { return mk(f(k, tag[v])), nil })
		},
		Track: func() { verifrt.Track(m) },
	}
}

func verifUserRules() veriflib.OrdMap {
	m := &UserRules{}
	objs := map[int]*UserRule{}
	tag := map[*UserRule]int{}
	mk := func(v int) *UserRule {
		if o, ok := objs[v]; ok {
			return o
		}
		o := &UserRule{}
		objs[v] = o
		tag[o] = v
		return o
	}
	return veriflib.OrdMap{
		Name: "UserRules",
		Init: func(keys []string, vals []int) {
			m.data = map[string]*UserRule{}
			for i, k := range keys {
				m.data[k] = mk(vals[i])
				m.order = append(m.order, k)
			}
		},
		Order: func() []string { return append([]string(nil), m.order...) },
		Data: func() map[string]int {
			r := map[string]int{}
			for k, v := range m.data {
				r[k] = tag[v]
			}
			return r
		},
		Set:      func(k string, v int) { m.Set(k, mk(v)) },
		SetToTop: func(k string, v int) { m.SetToTop(k, mk(v)) },
		Update: func(k string, v int) {
			m.Update(k, func(*UserRule) *UserRule {
				verifrt.Assert("C16.ordmap.update-callback-under-write-lock", verifrt.WriteLocked())
				return mk(v)
			})
		},
		Get: func(k string) (int, bool) {
			o, ok := m.Get(k)
			return tag[o], ok
		},
		GetValue: func(k string) int { return tag[m.GetValue(k)] },
		Has:      m.Has,
		Len:      m.Len,
		Each: func(visit func(string, int)) {
			_ = m.Each(func(k string, v *UserRule) error { visit(k, tag[v]); return nil })
		},
		EachRev: func(visit func(string, int)) {
			_ = m.EachReverse(func(k string, v *UserRule) error { visit(k, tag[v]); return nil })
		},
		Map: func(f func(string, int) int) {
			_ = m.Map(func(k string, v *UserRule) (*UserRule, error) { return mk(f(k, tag[v])), nil })
		},
		Track: func() { verifrt.Track(m) },
	}
}

func verifInteractions() veriflib.OrdMap {
	m := &Interactions{}
	objs := map[int]*HTTPInteraction{}
	tag := map[Interaction]int{}
	mk := func(v int) Interaction {
		if o, ok := objs[v]; ok {
			return o
		}
		o := &HTTPInteraction{}
		objs[v] = o
		tag[o] = v
		return o
	}
	key := func(k string) InteractionID { return HTTPInteractionID{protocol: HTTP, path: Path(k), method: GET} }
	unkey := func(id InteractionID) string { return string(id.Path()) }
	return veriflib.OrdMap{
		Name: "Interactions",
		Init: func(keys []string, vals []int) {
			m.data = map[InteractionID]Interaction{}
			for i, k := range keys {
				m.data[key(k)] = mk(vals[i])
				m.order = append(m.order, key(k))
			}
		},
		Order: func() []string {
			var r []string
			for _, k := range m.order {
				r = append(r, unkey(k))
			}
			return r
		},
		Data: func() map[string]int {
			r := map[string]int{}
			for k, v := range m.data {
				r[unkey(k)] = tag[v]
			}
			return r
		},
		Set:      func(k string, v int) { m.Set(key(k), mk(v)) },
		SetToTop: func(k string, v int) { m.SetToTop(key(k), mk(v)) },
		Update: func(k string, v int) {
			m.Update(key(k), func(Interaction) Interaction {
				verifrt.Assert("C16.ordmap.update-callback-under-write-lock", verifrt.WriteLocked())
				return mk(v)
			})
		},
		Get: func(k string) (int, bool) {
			o, ok := m.Get(key(k))
			if !ok {
				return 0, false
			}
			return tag[o], ok
		},
		GetValue: func(k string) int {
			o := m.GetValue(key(k))
			if o == nil {
				return 0
			}
			return tag[o]
		},
		Has: func(k string) bool { return m.Has(key(k)) },
		Len: m.Len,
		Each: func(visit func(string, int)) {
			_ = m.Each(func(k InteractionID, v Interaction) error { visit(unkey(k), tag[v]); return nil })
		},
		EachRev: func(visit func(string, int)) {
			_ = m.EachReverse(func(k InteractionID, v Interaction) error { visit(unkey(k), tag[v]); return nil })
		},
		Map: func(f func(string, int) int) {
			_ = m.Map(func(k InteractionID, v Interaction) (Interaction, error) { return mk(f(unkey(k), tag[v])), nil })
		},
		Track: func() { verifrt.Track(m) },
	}
}

// VerifH_OrderedMaps (C09a, C16a): one inductive step of every generated ordered collection of the catalog.
func VerifH_OrderedMaps() {
	switch verifrt.Bound("T") {
	case 0:
		veriflib.OrdMapStep(verifServers())
	case 1:
		veriflib.OrdMapStep(verifTags())
	case 2:
		veriflib.OrdMapStep(verifUserTypes())
	case 3:
		veriflib.OrdMapStep(verifUserRules())
	case 4:
		veriflib.OrdMapStep(verifInteractions())
	}
}
