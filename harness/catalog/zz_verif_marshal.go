package catalog

import (
	"github.com/jsightapi/jsight-api-go-library/internal/verifrt"
)

// ---- C16: serialisation results are not shared between calls ----
//
// "one validated catalog may be serialised and read from many goroutines at once ...
// with every result equal to the result obtained alone" requires in particular that the
// bytes returned by one MarshalJSON call are not storage that a later call (of the same
// or of another collection) writes to. The harness serialises collection A, keeps a copy,
// serialises collection B, and asserts that A's result still equals its copy.
//
// encoding/json is outside the encoding: json.Marshal is replaced by a stub returning
// arbitrary (symbolic) non-empty bytes, so the assertion covers every possible rendering
// of keys and values. sync.Pool is modelled as a single goroutine sees it (Get hands
// back what was Put last), which is also what the native replay does.

func verifStubJSONMarshal(v interface{}) ([]byte, error) {
	n := 1 + verifrt.Int("jsonlen", 0, 1)
	return verifrt.Bytes("json", n), nil
}

type verifMarshaler interface{ MarshalJSON() ([]byte, error) }

func verifCollection(which int, key string) verifMarshaler {
	switch which {
	case 0:
		m := &Servers{}
		m.Set(key, &Server{})
		return m
	case 1:
		m := &UserTypes{}
		m.Set(key, &UserType{})
		return m
	case 2:
		m := &UserRules{}
		m.Set(key, &UserRule{})
		return m
	case 3:
		m := &Tags{}
		m.Set(TagName("@"+key), &Tag{Name: TagName("@" + key), Title: key})
		return m
	case 4:
		m := &Interactions{}
		id := HTTPInteractionID{protocol: HTTP, path: Path("/" + key)}
		m.Set(id, &HTTPInteraction{Id: id.String()})
		return m
	default:
		m := &UserSchemas{}
		return m // values are schema-library objects: the empty collection still goes through the same buffer code
	}
}

func VerifH_MarshalStable() {
	which := verifrt.Choice("collection", 6)
	other := which
	if verifrt.Bound("CROSS") == 1 {
		other = verifrt.Choice("other", 6)
	}
	a := verifCollection(which, "a")
	b := verifCollection(other, "bb")
	r1, err1 := a.MarshalJSON()
	if err1 != nil {
		return
	}
	keep := string(r1)
	r2, err2 := b.MarshalJSON()
	verifrt.Assert("C16.marshal.earlier-result-unchanged", string(r1) == keep)
	if err2 != nil {
		return
	}
	keep2 := string(r2)
	_, _ = a.MarshalJSON()
	verifrt.Assert("C16.marshal.earlier-result-unchanged", string(r2) == keep2)
	verifrt.Reach("C16.marshal.three-serialisations", len(keep) >= 2 && len(keep2) >= 2)
}
