package catalog

import (
	"encoding/json"
	"github.com/jsightapi/jsight-api-go-library/notation"

	"github.com/jsightapi/jsight-api-go-library/internal/verifrt"
)

// ---- C16: serialisation results are not shared between calls ----
//
// "one validated catalog may be serialised and read from many goroutines at once ...
// with every result equal to the result obtained alone" requires in particular that the
// bytes returned by one MarshalJSON call are not storage that a later call (of the same
// or of another collection) writes to. The harness serialises collection A, keeps a copy,
// serialises collection B, and asserts that A's result still equals its copy.
//
// encoding/json is outside the encoding: json.Marshal is replaced by a stub returning
// arbitrary (symbolic) non-empty bytes, so the assertion covers every possible rendering
// of keys and values. sync.Pool is modelled as a single goroutine sees it (Get hands
// back what was Put last), which is also what the native replay does.

func verifStubJSONMarshal(v interface{}) ([]byte, error) {
	n := 1 + verifrt.Int("jsonlen", 0, 1)
	return verifrt.Bytes("json", n), nil
}

type verifMarshaler interface{ MarshalJSON() ([]byte, error) }

func verifCollection(which int, key string) verifMarshaler {
	switch which {
	case 0:
		m := &Servers{}
		m.Set(key, &Server{})
		return m
	case 1:
		m := &UserTypes{}
		m.Set(key, &UserType{Schema: NewSchema(notation.SchemaNotationAny)})
		return m
	case 2:
		m := &UserRules{}
		m.Set(key, &UserRule{})
		return m
	case 3:
		m := &Tags{}
		m.Set(TagName("@"+key), NewTag("@"+key, key))
		return m
	case 4:
		m := &Interactions{}
		id := HTTPInteractionID{protocol: HTTP, path: Path("/" + key)}
		m.Set(id, &HTTPInteraction{Id: id.String()})
		return m
	default:
		m := &UserSchemas{}
		return m // values are schema-library objects: the empty collection still goes through the same buffer code
	}
}

func VerifH_MarshalStable() {
	which := verifrt.Choice("collection", 6)
	other := which
	if verifrt.Bound("CROSS") == 1 {
		other = verifrt.Choice("other", 6)
	}
	a := verifCollection(which, "a")
	b := verifCollection(other, "bb")
	r1, err1 := a.MarshalJSON()
	if err1 != nil {
		return
	}
	keep := string(r1)
	r2, err2 := b.MarshalJSON()
	verifrt.Assert("C16.marshal.earlier-result-unchanged", string(r1) == keep)
	if err2 != nil {
		return
	}
	keep2 := string(r2)
	_, _ = a.MarshalJSON()
	verifrt.Assert("C16.marshal.earlier-result-unchanged", string(r2) == keep2)
	verifrt.Reach("C16.marshal.three-serialisations", len(keep) >= 2 && len(keep2) >= 2)
}

// ---- C09: the hand-written object rendering of the generated collections ----
//
// Every generated collection renders itself as '{' k1 ':' v1 ',' k2 ':' v2 ... '}' from
// the renderings encoding/json gives for its keys and values, in insertion order. With
// json.Marshal replaced by a stub returning arbitrary bytes (recorded in call order), the
// result must be exactly that concatenation: whatever valid JSON the keys and values
// render to, the collection renders to a valid JSON object with one member per key.

var verifMarshalLog [][]byte

func verifStubJSONMarshalLogged(v interface{}) ([]byte, error) {
	n := 1 + verifrt.Int("jsonlen", 0, 1)
	b := verifrt.Bytes("json", n)
	verifMarshalLog = append(verifMarshalLog, b)
	return b, nil
}

func VerifH_MarshalShape() {
	which := verifrt.Choice("collection", 5)
	t := verifrt.Bound("T")
	keys := []string{"a", "b", "c", "d"}[:t]
	var m verifMarshaler
	switch which {
	case 0:
		c := &Servers{}
		for _, k := range keys {
			c.Set(k, &Server{})
		}
		m = c
	case 1:
		c := &UserTypes{}
		for _, k := range keys {
			c.Set(k, &UserType{Schema: NewSchema(notation.SchemaNotationAny)})
		}
		m = c
	case 2:
		c := &UserRules{}
		for _, k := range keys {
			c.Set(k, &UserRule{})
		}
		m = c
	case 3:
		c := &Tags{}
		for _, k := range keys {
			c.Set(TagName("@"+k), NewTag("@"+k, k))
		}
		m = c
	default:
		c := &Interactions{}
		for _, k := range keys {
			id := HTTPInteractionID{protocol: HTTP, path: Path("/" + k)}
			c.Set(id, &HTTPInteraction{Id: id.String()})
		}
		m = c
	}
	verifMarshalLog = nil
	got, err := m.MarshalJSON()
	verifrt.Assert("C09.marshal.no-error", err == nil)
	if !verifrt.Symbolic() {
		// natively the real encoding/json renders keys and values: the result must be a valid JSON
		// object with one member per entry
		var members map[string]json.RawMessage
		ok := json.Valid(got) && json.Unmarshal(got, &members) == nil && len(members) == t
		verifrt.Assert("C09.marshal.object-shape", ok)
		return
	}
	verifrt.Assert("C09.marshal.one-key-and-one-value-per-entry", len(verifMarshalLog) == 2*t)
	if len(verifMarshalLog) != 2*t {
		return
	}
	want := []byte{'{'}
	for i := 0; i < t; i++ {
		if i > 0 {
			want = append(want, ',')
		}
		want = append(want, verifMarshalLog[2*i]...)
		want = append(want, ':')
		want = append(want, verifMarshalLog[2*i+1]...)
	}
	want = append(want, '}')
	verifrt.Assert("C09.marshal.object-shape", string(got) == string(want))
	verifrt.Reach("C09.marshal.rendered", len(got) >= 2)
}

// VerifH_MarshalKeyBytes (C09, valid JSON for keys that need escaping): one HTTP
// interaction whose path is "/" and one arbitrary byte that JSON cannot carry as it
// stands (a control byte, DEL, or a byte >= 0x80, i.e. not valid UTF-8 on its own).
// Escaping is encoding/json's work (outside the encoding): the collection must hand
// the key - and the value - to json.Marshal, which the logging stub observes. In the
// native replay the real encoding/json runs and the same assertion reads: the result
// is a valid JSON object with one member.
func VerifH_MarshalKeyBytes() {
	b := verifrt.Bytes("c", 1)
	verifrt.Assume(b[0] < 0x20 || b[0] == 0x7f || b[0] >= 0x80)
	c := &Interactions{}
	id := HTTPInteractionID{protocol: HTTP, path: Path("/" + string(b))}
	c.Set(id, &HTTPInteraction{Id: id.String()})
	verifMarshalLog = nil
	got, err := c.MarshalJSON()
	verifrt.Assert("C09.marshal.no-error", err == nil)
	if !verifrt.Symbolic() {
		var members map[string]json.RawMessage
		ok := json.Valid(got) && json.Unmarshal(got, &members) == nil && len(members) == 1
		verifrt.Assert("C09.marshal.key-escaped-by-encoding-json", ok)
		return
	}
	verifrt.Assert("C09.marshal.key-escaped-by-encoding-json", len(verifMarshalLog) == 2)
	verifrt.Reach("C09.marshal.key-bytes", true)
}
