package catalog

import (
	"github.com/jsightapi/jsight-api-go-library/internal/verifrt"
)

// VerifH_IdInjective (C09b): the text of an interaction id is the key of the
// "interactions" JSON object; two different (protocol, method, path) triples
// must not render to the same text, otherwise the object has a repeated key.
func VerifH_IdInjective() {
	n := verifrt.Bound("N")
	m1 := verifrt.String("m1", verifrt.Choice("lm1", n)+1)
	m2 := verifrt.String("m2", verifrt.Choice("lm2", n)+1)
	p1 := "/" + verifrt.String("p1", verifrt.Choice("lp1", n))
	p2 := "/" + verifrt.String("p2", verifrt.Choice("lp2", n))
	a := JsonRpcInteractionId{protocol: JsonRpc, path: Path(p1), method: m1}
	b := JsonRpcInteractionId{protocol: JsonRpc, path: Path(p2), method: m2}
	same := m1 == m2 && p1 == p2
	verifrt.Note("a", a.String())
	verifrt.Note("b", b.String())
	verifrt.Assert("C09.id.jsonrpc-injective", same || a.String() != b.String())
	verifrt.Reach("C09.id.jsonrpc-same-length", len(a.String()) == len(b.String()))

	// HTTP ids: method is one of the five verbs
	hm1 := HTTPMethod(verifrt.Choice("hm1", 5))
	hm2 := HTTPMethod(verifrt.Choice("hm2", 5))
	x := HTTPInteractionID{protocol: HTTP, path: Path(p1), method: hm1}
	y := HTTPInteractionID{protocol: HTTP, path: Path(p2), method: hm2}
	verifrt.Assert("C09.id.http-injective", (hm1 == hm2 && p1 == p2) || x.String() != y.String())
	// protocols never collide
	verifrt.Assert("C09.id.cross-protocol", x.String() != a.String())
	// MarshalText is the same text
	t, err := a.MarshalText()
	verifrt.Assert("C09.id.marshaltext", err == nil && string(t) == a.String())
}
