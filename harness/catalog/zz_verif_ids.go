package catalog

import (
	"github.com/jsightapi/jsight-api-go-library/internal/verifrt"
)

// VerifH_IdInjective (C09b): the text of an interaction id is the key of the
// "interactions" JSON object; two different (protocol, method, path) triples
// must not render to the same text, otherwise the object has a repeated key.
func VerifH_IdInjective() {
	n := verifrt.Bound("N")
	m1 := verifrt.String("m1", verifrt.Choice("lm1", n)+1)
	m2 := verifrt.String("m2", verifrt.Choice("lm2", n)+1)
	p1 := "/" + verifrt.String("p1", verifrt.Choice("lp1", n))
	p2 := "/" + verifrt.String("p2", verifrt.Choice("lp2", n))
	a := JsonRpcInteractionId{protocol: JsonRpc, path: Path(p1), method: m1}
	b := JsonRpcInteractionId{protocol: JsonRpc, path: Path(p2), method: m2}
	same := m1 == m2 && p1 == p2
	verifrt.Note("a", a.String())
	verifrt.Note("b", b.String())
	verifrt.Assert("C09.id.jsonrpc-injective", same || a.String() != b.String())
	verifrt.Reach("C09.id.jsonrpc-same-length", len(a.String()) == len(b.String()))

	// HTTP ids: method is one of the five verbs
	hm1 := HTTPMethod(verifrt.Choice("hm1", 5))
	hm2 := HTTPMethod(verifrt.Choice("hm2", 5))
	x := HTTPInteractionID{protocol: HTTP, path: Path(p1), method: hm1}
	y := HTTPInteractionID{protocol: HTTP, path: Path(p2), method: hm2}
	verifrt.Assert("C09.id.http-injective", (hm1 == hm2 && p1 == p2) || x.String() != y.String())
	// protocols never collide
	verifrt.Assert("C09.id.cross-protocol", x.String() != a.String())
}

// VerifH_IdKeyText (C09, "every interaction's key equals its id"): the key of an
// interaction in the JSON document is MarshalText of its id, the id field is
// String(): for every method name / path (N arbitrary bytes each, including bytes
// that are not valid UTF-8) the two are the same bytes.
func VerifH_IdKeyText() {
	n := verifrt.Bound("N")
	m := verifrt.String("m", verifrt.Choice("lm", n)+1)
	p := "/" + verifrt.String("p", verifrt.Choice("lp", n+1))
	a := JsonRpcInteractionId{protocol: JsonRpc, path: Path(p), method: m}
	t, err := a.MarshalText()
	verifrt.Assert("C09.id.key-is-id-text", err == nil && string(t) == a.String())
	x := HTTPInteractionID{protocol: HTTP, path: Path(p), method: HTTPMethod(verifrt.Choice("hm", 5))}
	u, err := x.MarshalText()
	verifrt.Assert("C09.id.key-is-id-text", err == nil && string(u) == x.String())
	verifrt.Reach("C09.id.key", true)
}
