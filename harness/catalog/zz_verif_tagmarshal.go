package catalog

import (
	"github.com/jsightapi/jsight-api-go-library/internal/verifrt"
)

// ---- C03: serialising a tag again hands the same structure to encoding/json ----
//
// encoding/json is outside the encoding, but what Tag.MarshalJSON hands to it is
// not: the stub below looks at its argument. The argument is a value of an unnamed
// struct type; a type assertion against an identical struct type observes the number
// of interaction groups. If the shape of that struct changes, the assertion does not
// match and the harness stops without a verdict on that path (no alarm).

type verifTagData = struct {
	Children          *Tags                 `json:"children,omitempty"`
	Name              TagName               `json:"name"`
	Title             string                `json:"title"`
	Description       *string               `json:"description,omitempty"`
	InteractionGroups []TagInteractionGroup `json:"interactionGroups"`
}

var verifTagGroupsSeen []int

func verifStubJSONMarshalTag(v interface{}) ([]byte, error) {
	if d, ok := v.(verifTagData); ok {
		verifTagGroupsSeen = append(verifTagGroupsSeen, len(d.InteractionGroups))
	} else {
		verifTagGroupsSeen = append(verifTagGroupsSeen, -1)
	}
	return []byte("x"), nil
}

// VerifH_TagMarshalRepeat (C03): a tag with an HTTP group, a JSON-RPC group, both
// or none, serialised two to four times: every call hands exactly the tag's groups
// to encoding/json.
func VerifH_TagMarshalRepeat() {
	verifTagGroupsSeen = nil
	t := NewTag("@a", "a")
	n := 0
	if verifrt.Choice("http", 2) == 1 {
		t.InteractionGroups[HTTP] = newTagInteractionGroup(HTTP)
		n++
	}
	if verifrt.Choice("jsonrpc", 2) == 1 {
		t.InteractionGroups[JsonRpc] = newTagInteractionGroup(JsonRpc)
		n++
	}
	calls := verifrt.Choice("calls", 3) + 2
	var outs []string
	for i := 0; i < calls; i++ {
		b, err := t.MarshalJSON()
		verifrt.Assert("C03.tagmarshal.no-error", err == nil)
		outs = append(outs, string(b))
	}
	if len(verifTagGroupsSeen) == 0 {
		// the stub is not in place (native replay: the real encoding/json ran): compare the bytes
		for i := 1; i < calls; i++ {
			verifrt.Assert("C03.tagmarshal.same-groups-every-call", outs[i] == outs[0])
		}
	} else {
		if len(verifTagGroupsSeen) != calls {
			verifrt.Stop() // MarshalJSON no longer calls encoding/json once per call: not observable here
		}
		for i := 0; i < calls; i++ {
			if verifTagGroupsSeen[i] < 0 {
				verifrt.Stop() // the structure handed over has another shape
			}
			verifrt.Assert("C03.tagmarshal.same-groups-every-call", verifTagGroupsSeen[i] == n)
		}
	}
	verifrt.Reach("C03.tagmarshal.observed", true)
	verifrt.Reach("C03.tagmarshal.two-groups", n == 2)
}
