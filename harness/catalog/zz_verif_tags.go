package catalog

import (
	"github.com/jsightapi/jsight-api-go-library/internal/verifrt"
)

func refHex(c byte) (byte, bool) {
	switch {
	case c >= '0' && c <= '9':
		return c - '0', true
	case c >= 'A' && c <= 'F':
		return c - 'A' + 10, true
	}
	return 0, false
}

// refUntag inverts the automatic tag name: "@" + segment where '_' is written
// "__" and every escaped byte "_XX".
func refUntag(t string) (string, bool) {
	if len(t) == 0 || t[0] != '@' {
		return "", false
	}
	var out []byte
	i := 1
	for i < len(t) {
		c := t[i]
		if c != '_' {
			out = append(out, c)
			i++
			continue
		}
		if i+1 < len(t) && t[i+1] == '_' {
			out = append(out, '_')
			i += 2
			continue
		}
		if i+2 < len(t) {
			h, ok1 := refHex(t[i+1])
			l, ok2 := refHex(t[i+2])
			if ok1 && ok2 {
				out = append(out, h<<4|l)
				i += 3
				continue
			}
		}
		return "", false
	}
	return string(out), true
}

// VerifH_TagNameInverse (C19a): the automatic tag name of a first path segment
// can be decoded back to the segment, hence different first segments get
// different names; and no non-empty segment collides with the root tag "@_".
func VerifH_TagNameInverse() {
	n := verifrt.Choice("n", verifrt.Bound("N")) + 1
	s := verifrt.String("s", n)
	for i := 0; i < n; i++ {
		verifrt.Assume(s[i] != '/')
	}
	name := string(tagName("/" + s))
	back, ok := refUntag(name)
	verifrt.Assert("C19.name.decodable", ok)
	verifrt.Assert("C19.name.inverse", back == s)
	verifrt.Assert("C19.name.not-root", name != "@_")
	verifrt.Reach("C19.name.escaped", len(name) > n+1)
	verifrt.Reach("C19.name.plain", len(name) == n+1)
}

// VerifH_PathTagTitle (C19a): the automatic tag title is "/" + the first path
// segment that is neither empty nor ".", or "/" if there is none.
func VerifH_PathTagTitle() {
	n := verifrt.Choice("n", verifrt.Bound("N")+1)
	p := verifrt.String("p", n)
	want := "/"
	start := 0
	for i := 0; i <= len(p); i++ {
		if i == len(p) || p[i] == '/' {
			seg := p[start:i]
			if seg != "" && seg != "." {
				want = "/" + seg
				break
			}
			start = i + 1
		}
	}
	verifrt.Assert("C19.title", pathTagTitle(p) == want)
	verifrt.Reach("C19.title.root", want == "/")
	verifrt.Reach("C19.title.seg", len(want) > 1)
}

// VerifH_Annotation (C15): Annotation(s) is s trimmed with every run of
// [\t\n\f\r ] collapsed into one blank (ASCII texts).
func VerifH_Annotation() {
	n := verifrt.Choice("n", verifrt.Bound("N")+1)
	s := verifrt.String("s", n)
	if verifrt.Bound("INTERIOR") == 1 {
		// any bytes at all between two letters (nothing to trim at the ends): only runs of the five ASCII
		// white-space characters are collapsed; VT, NBSP, U+3000, ... are text and stay as declared (C04)
		s = "a" + s + "a"
		n += 2
	} else {
		for i := 0; i < n; i++ {
			verifrt.Assume(s[i] < 0x80 && s[i] != '\v')
		}
	}
	var want []byte
	pendingBlank := false
	for i := 0; i < n; i++ {
		c := s[i]
		if c == ' ' || c == '\t' || c == '\n' || c == '\f' || c == '\r' {
			pendingBlank = len(want) > 0
			continue
		}
		if pendingBlank {
			want = append(want, ' ')
			pendingBlank = false
		}
		want = append(want, c)
	}
	verifrt.Assert("C15.annotation", Annotation(s) == string(want))
	verifrt.Assert("C04.annotation-as-declared", Annotation(s) == string(want))
	verifrt.Reach("C15.annotation.collapsed", len(want)+2 <= n && len(want) >= 3)
}
