package jerr

import "github.com/jsightapi/jsight-schema-go-library/fs"

// VerifFileOf exposes the file a JApiError is located in (Location.file is
// unexported). Present only in the verification overlay.
func VerifFileOf(e *JApiError) *fs.File { return e.file }

// VerifTrace exposes the include trace as (path, line) pairs.
func VerifTrace(e *JApiError) (paths []string, lines []int) {
	for _, it := range e.includeTrace {
		paths = append(paths, it.path)
		lines = append(lines, int(it.atLine))
	}
	return
}
