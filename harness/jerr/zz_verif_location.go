package jerr

import (
	"github.com/jsightapi/jsight-schema-go-library/bytes"
	"github.com/jsightapi/jsight-schema-go-library/fs"

	"github.com/jsightapi/jsight-api-go-library/internal/verifrt"
)

// refNewline: the newline convention of a content = the last byte of the first
// run of line-end bytes ('\n' when there is none).
func refNewline(c []byte) byte {
	nl := byte('\n')
	i := 0
	for i < len(c) && c[i] != '\n' && c[i] != '\r' {
		i++
	}
	for i < len(c) && (c[i] == '\n' || c[i] == '\r') {
		nl = c[i]
		i++
	}
	return nl
}

// refLine: 1 + number of line terminators strictly before pos.
func refLine(c []byte, pos int, nl byte) int {
	n := 1
	for j := 0; j < pos && j < len(c); j++ {
		if c[j] == nl {
			n++
		}
	}
	return n
}

// refQuote: the bytes of the line containing pos, without its terminator
// (a CR LF / LF CR pair counts as one terminator), not trimmed.
func refQuote(c []byte, pos int, nl byte) string {
	b := 0
	for j := 0; j < pos && j < len(c); j++ {
		if c[j] == nl {
			b = j + 1
		}
	}
	e := pos
	for e < len(c) && c[e] != nl {
		e++
	}
	if e > 0 {
		other := byte('\r')
		if nl == '\r' {
			other = '\n'
		}
		if c[e-1] == other {
			e--
		}
	}
	return string(c[b:e])
}

func refTrimLeft(s string) string {
	b := 0
	for b < len(s) && (s[b] == ' ' || s[b] == '\t' || s[b] == '\n' || s[b] == '\r') {
		b++
	}
	return s[b:]
}

// VerifH_LocationSpec (C02a, C01.2): for every content of 1..N bytes and every
// index 0..len (len = the end-of-file position the scanner reports), NewLocation
// does not fault and line/quote/index agree with the reference.
func VerifH_LocationSpec() {
	n := verifrt.Choice("n", verifrt.Bound("N")+1-verifrt.Bound("MIN")) + verifrt.Bound("MIN")
	content := verifrt.Bytes("c", n)
	pos := verifrt.Choice("pos", n+3) // 0..len in spec; len+1, len+2: must be clamped, not fault
	f := fs.NewFile("f.jst", content)
	loc := NewLocation(f, bytes.Index(pos))
	verifrt.Assert("C02.loc.index", loc.Index() == bytes.Index(pos))
	if pos <= n {
		nl := refNewline(content)
		verifrt.Assert("C02.loc.line", int(loc.Line()) == refLine(content, pos, nl))
		// the quote is the line containing pos; leading blanks may be dropped
		raw := refQuote(content, pos, nl)
		q := loc.Quote()
		verifrt.Assert("C02.loc.quote-suffix", len(q) <= len(raw) && q == raw[len(raw)-len(q):])
		verifrt.Assert("C02.loc.quote-trim", refTrimLeft(q) == refTrimLeft(raw))
	}
	verifrt.Reach("C02.loc.multi-line", loc.Line() > 1)
	verifrt.Reach("C02.loc.first-line", loc.Line() == 1)
}

// VerifH_LocationLong (C02a): the 200-byte cut of the quote, concrete long line, symbolic position.
func VerifH_LocationLong() {
	k := verifrt.Choice("k", 8) + 196 // line lengths 196..203
	content := make([]byte, 0, 260)
	content = append(content, "ab\n  "...)
	for i := 0; i < k; i++ {
		content = append(content, byte('a'+i%26))
	}
	content = append(content, "\nxy"...)
	pos := verifrt.Choice("pos", len(content)+1)
	f := fs.NewFile("f.jst", content)
	loc := NewLocation(f, bytes.Index(pos))
	q := loc.Quote()
	verifrt.Assert("C02.loc.quote-cut", len(q) <= 200)
	if pos >= 3 && pos <= 5+k {
		// within the long line: the quote is a prefix of the left-trimmed line, the whole of it when it fits
		line := string(content[5 : 5+k])
		if k+2 <= 200 {
			verifrt.Assert("C02.loc.quote-long-exact", q == line)
		} else {
			verifrt.Assert("C02.loc.quote-long-prefix", len(q) >= 190 && q[:190] == line[:190])
		}
	}
	verifrt.Reach("C02.loc.long", len(q) > 190)
}

// VerifH_LocationLongTail (C01/C02a): a last line just around the 200-byte cut of
// the quote whose final T bytes are arbitrary (binary, UTF-8 continuation bytes
// included) and that ends with the file, no line break; symbolic position. Locating
// never faults and the quote stays within 200 bytes.
func VerifH_LocationLongTail() {
	k := verifrt.Choice("k", 3) + 195 // concrete part 195..197 bytes
	t := verifrt.Choice("t", verifrt.Bound("T")+1)
	tail := verifrt.Bytes("tail", t)
	content := make([]byte, 0, 260)
	content = append(content, "ab\n"...)
	for i := 0; i < k; i++ {
		content = append(content, byte('a'+i%26))
	}
	for i := 0; i < t; i++ {
		verifrt.Assume(tail[i] != '\n' && tail[i] != '\r')
		content = append(content, tail[i])
	}
	pos := verifrt.Choice("pos", len(content)+1)
	f := fs.NewFile("f.jst", content)
	loc := NewLocation(f, bytes.Index(pos))
	q := loc.Quote()
	verifrt.Assert("C01.loc.long-tail-total", true)
	verifrt.Assert("C02.loc.quote-cut", len(q) <= 200)
	verifrt.Reach("C01.loc.long-tail", len(q) > 190)
	verifrt.Reach("C02.loc.long-tail", len(q) > 190)
}

// VerifH_ErrorTrace (C02): OccurredInFile appends (file name, line of atByte).
func VerifH_ErrorTrace() {
	n := verifrt.Choice("n", verifrt.Bound("N")) + 1
	content := verifrt.Bytes("c", n)
	at := verifrt.Choice("at", n+1)
	f := fs.NewFile("inc.jst", content)
	e := NewJApiError("m", fs.NewFile("root.jst", "x"), 0)
	verifrt.Assert("C02.trace.none", !e.HasStackTrace())
	e.OccurredInFile(f, bytes.Index(at))
	verifrt.Assert("C02.trace.has", e.HasStackTrace() && len(e.includeTrace) == 1)
	verifrt.Assert("C02.trace.path", e.includeTrace[0].path == "inc.jst")
	verifrt.Assert("C02.trace.line", int(e.includeTrace[0].atLine) == refLine(content, at, refNewline(content)))
	verifrt.Reach("C02.trace.line2", e.includeTrace[0].atLine >= 2)
}

// verifStubNewLocation is the summary of NewLocation used by harnesses whose
// subject is not the line/quote arithmetic: it never faults (discharged for
// every content of up to N bytes and every index up to len+2 by
// VerifH_LocationSpec) and records file and index; line and quote are not
// observed by those harnesses.
func verifStubNewLocation(f *fs.File, i bytes.Index) Location {
	if f == nil {
		panic("nil file")
	}
	return Location{file: f, index: i, line: 1}
}

// VerifH_LocationIndependent (C02, C03, C16): the location of an error in one
// file does not depend on any file processed before - in particular not on an
// earlier file with the same name and the same size (an edited file, or
// another project's file, processed in the same process).
func VerifH_LocationIndependent() {
	n := verifrt.Choice("n", verifrt.Bound("N")) + 1
	c1 := verifrt.Bytes("c1", n)
	c2 := verifrt.Bytes("c2", n)
	p1 := verifrt.Choice("p1", n+1)
	p2 := verifrt.Choice("p2", n+1)
	first := NewLocation(fs.NewFile("same.jst", c1), bytes.Index(p1))
	_ = first
	loc := NewLocation(fs.NewFile("same.jst", c2), bytes.Index(p2))
	nl := refNewline(c2)
	verifrt.Assert("C02.loc.independent-line", int(loc.Line()) == refLine(c2, p2, nl))
	raw := refQuote(c2, p2, nl)
	verifrt.Assert("C02.loc.independent-quote", refTrimLeft(loc.Quote()) == refTrimLeft(raw))
	verifrt.Reach("C02.loc.independent.second-line", loc.Line() >= 2)
}
