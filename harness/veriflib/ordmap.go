// Package veriflib holds harness code shared by several packages under test.
// Unlike verifrt it is ordinary Go that the symbolic executor interprets.
package veriflib

import (
	"github.com/jsightapi/jsight-api-go-library/internal/verifrt"
)

// OrdMap adapts one generated ordered collection (string-like keys, values
// identified by an int tag) to the generic one-step driver below.
type OrdMap struct {
	Name string
	// construction of the pre-state (harness-side, bypassing the methods)
	Init func(keys []string, vals []int)
	// raw views of the representation
	Order func() []string
	Data  func() map[string]int
	// operations under test
	Set      func(k string, v int)
	SetToTop func(k string, v int) // nil if the type has none
	Update   func(k string, v int) // replaces the value by v through Update's callback
	Get      func(k string) (int, bool)
	GetValue func(k string) int // 0 for absent
	Has      func(k string) bool
	Len      func() int
	Each     func(visit func(k string, v int))
	EachRev  func(visit func(k string, v int)) // may be nil
	Map      func(f func(k string, v int) int) // may be nil
	Track    func()                            // registers the object with the lock monitor
}

func contains(ks []string, k string) int {
	for i := range ks {
		if ks[i] == k {
			return i
		}
	}
	return -1
}

// OrdMapStep (C09a, C16a): from an arbitrary state with at most 3 entries that
// satisfies the representation invariant (order has no duplicates and
// set(order) = keys(data)), one operation with an arbitrary key re-establishes
// the invariant and has exactly its documented effect; iteration visits every
// key once, in order. With the lock monitor on, every access to data/order
// happens under the collection's mutex and no lock is left held.
func OrdMapStep(m OrdMap) {
	n := verifrt.Choice("n", 4)
	keys := make([]string, n)
	vals := make([]int, n)
	for i := 0; i < n; i++ {
		keys[i] = verifrt.String("key", 1)
		for j := 0; j < i; j++ {
			verifrt.Assume(keys[i] != keys[j])
		}
		vals[i] = 10 + i
	}
	m.Init(keys, vals)
	k := verifrt.String("k", 1)
	at := contains(keys, k) // -1: fresh key
	m.Track()
	verifrt.LockMonitor(true)
	id := "C09.ordmap." + m.Name + "."
	wantKeys := keys
	wantVals := vals
	switch verifrt.Choice("op", 9) {
	case 0:
		m.Set(k, 99)
		if at < 0 {
			wantKeys = append(append([]string(nil), keys...), k)
			wantVals = append(append([]int(nil), vals...), 99)
		} else {
			wantVals = append([]int(nil), vals...)
			wantVals[at] = 99
		}
	case 1:
		if m.SetToTop == nil {
			verifrt.Stop()
		}
		m.SetToTop(k, 99)
		if at < 0 {
			wantKeys = append([]string{k}, keys...)
			wantVals = append([]int{99}, vals...)
		} else {
			wantVals = append([]int(nil), vals...)
			wantVals[at] = 99
		}
	case 2:
		// Update is atomic: its callback runs under the write lock (otherwise a concurrent update is lost)
		m.Update(k, 77)
		if at >= 0 {
			wantVals = append([]int(nil), vals...)
			wantVals[at] = 77
		}
	case 3:
		v, ok := m.Get(k)
		verifrt.Assert(id+"get", ok == (at >= 0) && (at < 0 || v == vals[at]))
	case 4:
		verifrt.Assert(id+"has", m.Has(k) == (at >= 0))
		v := m.GetValue(k)
		verifrt.Assert(id+"getvalue", (at < 0 && v == 0) || (at >= 0 && v == vals[at]))
	case 5:
		verifrt.Assert(id+"len", m.Len() == n)
	case 6:
		var seenK []string
		var seenV []int
		m.Each(func(kk string, vv int) { seenK = append(seenK, kk); seenV = append(seenV, vv) })
		verifrt.Assert(id+"each-count", len(seenK) == n)
		for i := 0; i < n && i < len(seenK); i++ {
			verifrt.Assert(id+"each-order", seenK[i] == keys[i] && seenV[i] == vals[i])
		}
	case 7:
		if m.EachRev == nil {
			verifrt.Stop()
		}
		var seenK []string
		m.EachRev(func(kk string, vv int) { seenK = append(seenK, kk) })
		verifrt.Assert(id+"eachrev-count", len(seenK) == n)
		for i := 0; i < n && i < len(seenK); i++ {
			verifrt.Assert(id+"eachrev-order", seenK[i] == keys[n-1-i])
		}
	case 8:
		if m.Map == nil {
			verifrt.Stop()
		}
		m.Map(func(kk string, vv int) int { return vv + 100 })
		wantVals = make([]int, n)
		for i := range vals {
			wantVals[i] = vals[i] + 100
		}
	}
	verifrt.LockMonitor(false)
	verifrt.Assert("C16.ordmap."+m.Name+".no-lock-left-held", verifrt.HeldLocks() == 0)
	// representation invariant and exact effect
	order := m.Order()
	data := m.Data()
	verifrt.Assert(id+"inv-order-len", len(order) == len(wantKeys))
	verifrt.Assert(id+"inv-data-len", len(data) == len(wantKeys))
	if len(order) != len(wantKeys) {
		return
	}
	for i := range wantKeys {
		verifrt.Assert(id+"order", order[i] == wantKeys[i])
		v, ok := data[wantKeys[i]]
		verifrt.Assert(id+"data", ok && v == wantVals[i])
		for j := 0; j < i; j++ {
			verifrt.Assert(id+"inv-no-dup", order[i] != order[j])
		}
	}
	verifrt.Reach(id+"grew", len(order) == n+1)
	verifrt.Reach(id+"same", len(order) == n && n > 0)
}
