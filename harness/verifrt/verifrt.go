// Package verifrt is the harness support API.
//
// Under gosym (symbolic execution) every function here is intercepted by name:
// the bodies below are never interpreted. Compiled natively (go test -overlay)
// the same functions read the concrete values of a replay file named by the
// VERIF_REPLAY environment variable, so one harness source serves both as the
// verification condition and as the replay test of a solver model against the
// real code.
package verifrt

import (
	"encoding/json"
	"fmt"
	"os"
	"strings"
)

type replayFile struct {
	Harness string            `json:"harness"`
	Vars    map[string]uint64 `json:"vars"`
	Bounds  map[string]int    `json:"bounds"`
}

var (
	replay   *replayFile
	counters = map[string]int{}

	// Failed collects the ids of violated assertions of the current replay.
	Failed []string
	// Reached collects satisfied reach witnesses.
	Reached []string
)

// AssumptionViolated is panicked when a replay does not satisfy an Assume.
type AssumptionViolated struct{}

// Stopped is panicked by Stop.
type Stopped struct{}

func load() *replayFile {
	if replay != nil {
		return replay
	}
	replay = &replayFile{Vars: map[string]uint64{}, Bounds: map[string]int{}}
	p := os.Getenv("VERIF_REPLAY")
	if p == "" {
		return replay
	}
	b, err := os.ReadFile(p)
	if err != nil {
		panic("verifrt: cannot read replay file: " + err.Error())
	}
	if err := json.Unmarshal(b, replay); err != nil {
		panic("verifrt: bad replay file: " + err.Error())
	}
	return replay
}

// Reset clears per-run state (used by the replay driver).
func Reset() {
	counters = map[string]int{}
	Failed = nil
	Reached = nil
}

// HarnessName returns the harness named by the replay file.
func HarnessName() string { return load().Harness }

func fresh(name string) string {
	k := counters[name]
	counters[name] = k + 1
	return fmt.Sprintf("%s#%d", name, k)
}

// Symbolic reports whether the harness runs under the symbolic executor.
func Symbolic() bool { return false }

// Bound returns the configured bound.
func Bound(name string) int {
	v, ok := load().Bounds[name]
	if !ok {
		panic("verifrt: bound not in replay file: " + name)
	}
	return v
}

func Byte(name string) byte { return byte(load().Vars[fresh(name)]) }

func Bool(name string) bool { return load().Vars[fresh(name)]&1 == 1 }

func Bytes(name string, n int) []byte {
	base := fresh(name)
	b := make([]byte, n)
	for i := range b {
		b[i] = byte(load().Vars[fmt.Sprintf("%s[%d]", base, i)])
	}
	return b
}

func String(name string, n int) string { return string(Bytes(name, n)) }

// Int is a symbolic integer in [lo, hi].
func Int(name string, lo, hi int) int {
	v := int(int64(load().Vars[fresh(name)]))
	if v < lo || v > hi {
		panic(AssumptionViolated{})
	}
	return v
}

// Choice is a symbolic integer in [0, n) that is case-split immediately.
func Choice(name string, n int) int { return Int(name, 0, n-1) }

// Concrete forces a case split on x.
func Concrete(x int) int { return x }

func Assume(c bool) {
	if !c {
		panic(AssumptionViolated{})
	}
}

func Assert(id string, c bool) {
	if !c {
		Failed = append(Failed, id)
	}
}

func Reach(id string, c bool) {
	if c {
		Reached = append(Reached, id)
	}
}

func Stop() { panic(Stopped{}) }

func Note(key, val string) {}

func NoteInt(key string, val int) {}

// NativeInt returns the value the replay file holds for a variable (native
// replay only, e.g. to prepare the real file system the way a stub answered
// symbolically); def if absent. Under the symbolic engine it is never called
// on a path that matters (guarded by !Symbolic()).
func NativeInt(name string, def int) int {
	if v, ok := load().Vars[name]; ok {
		return int(int64(v))
	}
	return def
}

// Faults: number of runtime faults raised so far (symbolic engine only).
func Faults() int { return 0 }

func LockMonitor(on bool) {}

func Track(p interface{}) {}

func HeldLocks() int { return 0 }

// SharedWrites: writes to process-wide state observed so far (symbolic engine only).
func SharedWrites() int { return 0 }

// WriteLocked: some tracked mutex is write-held (symbolic engine only; natively true, the question cannot be asked).
func WriteLocked() bool { return true }

// ReadOrWriteLocked: some tracked mutex is held in either mode.
func ReadOrWriteLocked() bool { return true }

// RunReplay runs harness h natively and prints the outcome in a fixed format.
func RunReplay(harnesses map[string]func()) (outcome string) {
	name := HarnessName()
	h, ok := harnesses[name]
	if !ok {
		return "VERIF-REPLAY-ERROR unknown harness " + name
	}
	Reset()
	defer func() {
		if r := recover(); r != nil {
			switch r.(type) {
			case AssumptionViolated:
				outcome = "VERIF-REPLAY-ASSUMPTION-VIOLATED"
			case Stopped:
				outcome = summary()
			default:
				outcome = fmt.Sprintf("VERIF-REPLAY-PANIC %v", r)
				if len(Failed) > 0 {
					outcome += "\n" + summary()
				}
			}
		}
	}()
	h()
	return summary()
}

func summary() string {
	if len(Failed) > 0 {
		return "VERIF-REPLAY-FAIL " + strings.Join(Failed, ",")
	}
	return "VERIF-REPLAY-PASS"
}
