package directive

import (
	"github.com/jsightapi/jsight-schema-go-library/bytes"

	"github.com/jsightapi/jsight-api-go-library/internal/verifrt"
)

// refEscape writes v in double quotes with '"' and '\' escaped by a backslash.
func refEscape(v []byte) []byte {
	out := []byte{'"'}
	for _, c := range v {
		if c == '"' || c == '\\' {
			out = append(out, '\\')
		}
		out = append(out, c)
	}
	return append(out, '"')
}

// VerifH_UnescapeRoundTrip (C17): a quoted value is read back exactly.
func VerifH_UnescapeRoundTrip() {
	n := verifrt.Choice("n", verifrt.Bound("N")+1)
	v := verifrt.Bytes("v", n)
	for i := 0; i < n; i++ {
		verifrt.Assume(v[i] != '\n' && v[i] != '\r' && v[i] != 0)
	}
	got := unescapeParameter(bytes.Bytes(refEscape(v)))
	verifrt.Assert("C17.roundtrip", string(got) == string(v))
	verifrt.Reach("C17.roundtrip.escapes", len(refEscape(v)) > n+2)
}

// VerifH_QuoteNeutral (C05/C17): a value that needs no quotes means the same quoted.
func VerifH_QuoteNeutral() {
	n := verifrt.Choice("n", verifrt.Bound("N")) + 1
	v := verifrt.Bytes("v", n)
	for i := 0; i < n; i++ {
		c := v[i]
		verifrt.Assume(c > ' ' && c != '"' && c != '\\' && c != '#' && c < 0x7f)
	}
	bare := unescapeParameter(bytes.Bytes(v))
	quoted := unescapeParameter(bytes.Bytes(refEscape(v)))
	verifrt.Assert("C17.bare-identity", string(bare) == string(v))
	verifrt.Assert("C17.quote-neutral", string(quoted) == string(bare))
	verifrt.Assert("C05.quote-neutral", string(quoted) == string(bare))
	verifrt.Reach("C17.neutral.any", n >= 2)
}
