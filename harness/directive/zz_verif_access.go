package directive

// VerifNew builds a directive without deriving its keyword text from the kind,
// so that the kind may stay symbolic (New computes e.String(), an index into
// the keyword table). Present only in the verification overlay.
func VerifNew(kind Enumeration, coords Coords, keyword string) *Directive {
	return &Directive{
		type_:             kind,
		namedParameters:   make(map[string]string),
		unnamedParameters: make([]string, 0, 2),
		Keyword:           keyword,
		keywordCoords:     coords,
		includeTracer:     nopIncludeTracer{},
	}
}

// VerifKeywordBegin exposes the keyword offset (the identity of a directive in harness-built documents).
func VerifKeywordBegin(d *Directive) int { return int(d.keywordCoords.begin) }
