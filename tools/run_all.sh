#!/bin/bash
# usage: tools/run_all.sh <tier> [ids...]   (runs in the directory it is started from; builds gosym there)
set -u
TIER=${1:-quick}; shift
export GOFLAGS=-mod=mod GOPROXY=off GOSUMDB=off GOTOOLCHAIN=local
export VERIF_DIR=$PWD
(cd engine && go build -o ../bin/gosym ./cmd/gosym) || exit 2
IDS=${@:-$(python3 -c "import json;print(' '.join(sorted(json.load(open('checks.json')).keys())))")}
for id in $IDS; do
  start=$(date +%s)
  bin/gosym check $id --tier $TIER > run_$id.$TIER.log 2>&1
  rc=$?
  echo "$id rc=$rc $(( $(date +%s) - start ))s $(tail -1 run_$id.$TIER.log | cut -c1-150)"
done
