#!/usr/bin/env python3
"""Prints, from checks.json, what each property's check runs (harness, bounds per tier) and what it leaves undecided."""
import json
c = json.load(open('/verif/checks.json'))
def b(d):
    return ','.join(f"{k}={v}" for k, v in sorted(d.items())) or '-'
for pid in sorted(c):
    spec = c[pid]
    print(f"**{pid} — {spec['title']}**\n")
    print('| harness | quick bounds | thorough bounds | options |')
    print('|---|---|---|---|')
    for h in spec['harnesses']:
        opts = []
        if h.get('instances'):
            keys = sorted({k for i in h['instances'] for k in i})
            opts.append(f"{len(h['instances'])} instances over {'/'.join(keys)}")
        for k in ('maporder', 'lock_monitor', 'full_schema_lib', 'budget_violation'):
            if h.get(k):
                opts.append(k)
        if h.get('stubsets'):
            opts.append('stubs: ' + '+'.join(h['stubsets']))
        if h.get('stubs'):
            opts.append('stubs: ' + ', '.join(h['stubs']))
        if h.get('tabsets'):
            opts.append('tabulated: ' + '+'.join(h['tabsets']))
        if h.get('fixtures'):
            opts.append(f"fixtures {h['fixtures']} / {'all' if h.get('fixtures_thorough') == -1 else h.get('fixtures_thorough')}")
        print(f"| `{h['pkg']}.{h['fn']}` | {b(h.get('quick', {}))} | {b(h.get('thorough') or {})} | {'; '.join(opts) or '-'} |")
    print('\nNot decided: ' + '; '.join(spec['not_decided']) + '.\n')
