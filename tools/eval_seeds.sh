#!/bin/bash
# usage: tools/eval_seeds.sh [seed-names...]
# For each stored seed: fresh worktree of /repo at the seed's base commit, apply the patch, run the quick check of
# its property (and the extra checks listed in meta.json "also_check") against that worktree, record what was reported.
export GOFLAGS=-mod=mod GOPROXY=off GOSUMDB=off GOTOOLCHAIN=local
export VERIF_EVIDENCE_DIR=/tmp/eval-evidence
cd /verif
SEEDS=${@:-$(ls seeded)}
for s in $SEEDS; do
  D=/verif/seeded/$s
  BASE=$(python3 -c "import json;print(json.load(open('$D/meta.json'))['confirmed']['base'])")
  PROP=$(python3 -c "import json;print(json.load(open('$D/meta.json'))['property'])")
  ALSO=$(python3 -c "import json;print(' '.join(json.load(open('$D/meta.json')).get('also_check',[])))")
  W=/tmp/eval-$s
  rm -rf $W; git -C /repo worktree prune; git -C /repo worktree add -q --detach $W $BASE || continue
  (cd $W && git apply $D/patch.diff) || { echo "$s: patch does not apply at $BASE"; git -C /repo worktree remove --force $W; continue; }
  RES=""
  for id in $PROP $ALSO; do
    out=$(/verif/bin/gosym check $id --repo $W 2>&1); rc=$?
    nv=$(echo "$out" | grep -c "^VIOLATION")
    first=$(echo "$out" | grep "^violation:" | head -1 | cut -c1-160)
    echo "$s $id rc=$rc violations=$nv $first"
    RES="$RES|$id rc=$rc violations=$nv $first"
  done
  git -C /repo worktree remove --force $W
  python3 - "$D/meta.json" "$RES" <<'PY'
import json,sys
p=sys.argv[1]; m=json.load(open(p))
m['detection']=[x for x in sys.argv[2].split('|') if x]
json.dump(m,open(p,'w'),indent=1)
PY
done
