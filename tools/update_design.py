#!/usr/bin/env python3
"""Regenerates the generated regions of DESIGN.md (seeds table, registered-checks table)."""
import subprocess, re
p = '/verif/DESIGN.md'
s = open(p).read()
for name, tool in (('seeds-table', 'seeds_table.py'), ('decided-table', 'decided_table.py')):
    out = subprocess.run(['python3', '/verif/tools/' + tool], capture_output=True, text=True, check=True).stdout
    b, e = f'<!-- BEGIN {name} -->', f'<!-- END {name} -->'
    i, j = s.index(b), s.index(e)
    s = s[:i + len(b)] + '\n' + out + s[j:]
open(p, 'w').write(s)
