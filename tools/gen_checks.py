#!/usr/bin/env python3
"""Single source of truth for /verif/checks.json and /verif/MANIFEST.json.

Run:  python3 tools/gen_checks.py
"""
import json, os

V = os.path.dirname(os.path.dirname(os.path.abspath(__file__)))

def P(lst):
    return [{"P": p} for p in lst]

DEEP = ["schema-len", "location", "errmsg"]
SCAN_ALL = list(range(0, 33))
CORE_ALL = list(range(0, 17))

def next_total(quickN, thoroughN, ps, stubsets=DEEP, **kw):
    h = {"pkg": "scanner", "fn": "VerifH_NextTotal", "quick": {"N": quickN}, "thorough": {"N": thoroughN},
         "stubsets": stubsets, "instances": P(ps), "budget_violation": True, "step_budget": 400000}
    h.update(kw)
    return h

def scan_project(quick, thorough, ps):
    return {"pkg": "core", "fn": "VerifH_ScanProjectTotal", "quick": quick, "thorough": thorough,
            "stubsets": DEEP + ["vfs"], "instances": P(ps), "budget_violation": True, "step_budget": 600000}

LOC = {"pkg": "jerr", "fn": "VerifH_LocationSpec", "quick": {"N": 4, "MIN": 0}, "thorough": {"N": 6, "MIN": 0}}
LOC_LONG = {"pkg": "jerr", "fn": "VerifH_LocationLong", "quick": {}, "thorough": {}}
LOC_TAIL = {"pkg": "jerr", "fn": "VerifH_LocationLongTail", "quick": {"T": 6}, "thorough": {"T": 8}}
TRACE1 = {"pkg": "jerr", "fn": "VerifH_ErrorTrace", "quick": {"N": 4}, "thorough": {"N": 6}}
TRACE3 = {"pkg": "scanner", "fn": "VerifH_IncludeTraceTree", "quick": {}, "thorough": {}}
TRACE2 = {"pkg": "scanner", "fn": "VerifH_IncludeTrace", "quick": {"K": 5, "F": 2}, "thorough": {"K": 6, "F": 3}}
STACKINV = {"pkg": "scanner", "fn": "VerifH_StackInvariant", "quick": {}, "thorough": {}}
CTX = {"pkg": "core", "fn": "VerifH_ContextResolution", "quick": {"K": 4}, "thorough": {"K": 6},
       "stubsets": ["location"], "tabsets": ["kinds"]}

def doc(fn, quick, thorough, **kw):
    h = {"pkg": "core", "fn": fn, "quick": quick, "thorough": thorough, "stubsets": ["location"]}
    h.update(kw)
    return h

DOC_ASSUME = [
 "documents: 'JSIGHT 0.3' followed by K lines chosen from a menu of directive-line templates; names and first path segments inside a line are symbolic bytes over {a,b} (whether two names coincide is decided by the code's own comparisons and the solver); only schema-free notations (any / empty) occur, so the whole real pipeline runs from the document text: scanner, context resolution, macro expansion, catalog building, validation",
 "the catalog is observed through a structural rendering of every collection in order (verifSig), not through encoding/json",
 "jerr.NewLocation summarised (never faults; line/quote not observed)",
]
DOC_NOT = ["documents outside the template menu or longer than K lines", "schema bodies and everything that depends on the schema library (jsight / regex notations, ENUM rules, Path / Query / Headers bodies)", "the JSON rendering"]

STRUCT = doc("VerifH_CatalogStructure", {"K": 3, "MENU": 0}, {"K": 4, "MENU": 0})
STRUCT_TAGS = doc("VerifH_CatalogStructure", {"K": 4, "MENU": 1}, {"K": 5, "MENU": 1})
STRUCT_PARENS = doc("VerifH_CatalogStructure", {"K": 5, "MENU": 2}, {"K": 6, "MENU": 2})
STRUCT_RESP = doc("VerifH_CatalogStructure", {"K": 4, "MENU": 3}, {"K": 5, "MENU": 3}, full_schema_lib=True)
CROSSINC = doc("VerifH_CrossProjectInclude", {"K": 1}, {"K": 2}, stubsets=["location", "vfs-files"])
MARSHAL = {"pkg": "catalog", "fn": "VerifH_MarshalStable", "quick": {"CROSS": 1}, "thorough": {"CROSS": 1},
           "stubs": {"encoding/json.Marshal": "verifStubJSONMarshal"}, "replay_repeat": 3}
TAGMARSHAL = {"pkg": "catalog", "fn": "VerifH_TagMarshalRepeat", "quick": {}, "thorough": {},
              "stubs": {"encoding/json.Marshal": "verifStubJSONMarshalTag"}}
ATTRIB = doc("VerifH_DiagnosticAttribution", {"K": 3}, {"K": 4}, full_schema_lib=True)
ANNOT_IN = {"pkg": "catalog", "fn": "VerifH_Annotation", "quick": {"N": 3, "INTERIOR": 1}, "thorough": {"N": 4, "INTERIOR": 1}}
MSHAPE = {"pkg": "catalog", "fn": "VerifH_MarshalShape", "quick": {}, "thorough": {}, "instances": [{"T": t} for t in range(4)],
          "instances_thorough": [{"T": 4}], "stubs": {"encoding/json.Marshal": "verifStubJSONMarshalLogged"}}
MKEY = {"pkg": "catalog", "fn": "VerifH_MarshalKeyBytes", "quick": {}, "thorough": {}, "stubs": {"encoding/json.Marshal": "verifStubJSONMarshalLogged"}}
FIXTURES = {"pkg": "core", "fn": "VerifH_Fixture", "quick": {}, "thorough": {}, "full_schema_lib": True,
            "fixtures": 256, "fixtures_thorough": -1, "fixture_max_bytes": 20000, "step_budget": 60000000, "tolerated_inconclusive": ["budget: step budget"]}
STRUCT_SCHEMA = doc("VerifH_CatalogStructure", {"K": 3, "MENU": 4}, {"K": 4, "MENU": 4}, full_schema_lib=True)
STRUCT_RPC = doc("VerifH_CatalogStructure", {"K": 4, "MENU": 5}, {"K": 5, "MENU": 5}, full_schema_lib=True)
PGRAPH = doc("VerifH_PasteGraph", {"M": 3}, {"M": 4}, budget_violation=True, depth_budget=300)

CHECKS = {
 "C01": {
  "title": "Totality",
  "harnesses": [
   next_total(3, 5, SCAN_ALL),
   next_total(2, 3, [0, 1, 8, 12], stubsets=["schema-len"]),
   LOC,
   LOC_TAIL,
   scan_project({"N": 2, "M": 1}, {"N": 3, "M": 2}, CORE_ALL),
   {"pkg": "core", "fn": "VerifH_IncludeQuoted", "quick": {"N": 3}, "thorough": {"N": 5}, "stubsets": ["vfs", "location"]},
   {"pkg": "core", "fn": "VerifH_ContextResolution", "quick": {"K": 3}, "thorough": {"K": 5}, "stubsets": ["location"], "tabsets": ["kinds"]},
   doc("VerifH_PipelineTotal", {"K": 2, "MENU": 0}, {"K": 3, "MENU": 0}, budget_violation=True),
   doc("VerifH_PipelineTotal", {"K": 2, "MENU": 1}, {"K": 3, "MENU": 1}, budget_violation=True, full_schema_lib=True),
   doc("VerifH_PasteEqualsInline", {"K": 5, "MENU": 1}, {"K": 6, "MENU": 1}, budget_violation=True, depth_budget=300),
   PGRAPH,
   doc("VerifH_PipelineTotal", {"K": 3, "MENU": 2}, {"K": 4, "MENU": 2}, budget_violation=True, full_schema_lib=True, step_budget=3000000),
   FIXTURES,
  ],
  "assumptions": [
   "translator validation (VerifH_Fixture): a sample (quick: 256, thorough: all) of the single-file fixtures of /repo/testdata up to 20000 bytes is pushed through the symbolic executor (whole real pipeline and schema library interpreted from SSA, no stub) and the outcome - verdict, message, index, line, quote, full structural rendering of the catalog - must equal what the native build computes for the same text in the same run; a disagreement makes the check inconclusive (it is an encoder defect, not a property violation); a fixture that crashes natively is a C01 violation",
   "schema library body delimiting (jschema/enum FromFile().Len()) replaced by a nondeterministic stub: on r remaining bytes returns any l in 1..r or an error; r = 0 is an error",
   "kit.ConvertError replaced by a stub returning an error with any position 0..len(body file)",
   "deep instances: jerr.NewLocation summarised (never faults; discharged separately by VerifH_LocationSpec up to its bound) and the message formatting of japiErrorUnexpectedChar replaced by a constant message; the shallow instances run both for real",
   "os.Stat / os.ReadFile replaced by a virtual file system: any of absent, directory, regular file, other error; file content = symbolic bytes",
   "step budget per path as a termination bound: exceeding it is reported as a candidate hang and replayed natively under a timeout",
  ],
  "not_decided": [
   "inputs longer than prefix + N bytes",
   "faults inside the schema library (only its delimiting contract is modelled)",
   "macro/paste expansion and catalog building on symbolic documents (see C07 / C04 harnesses when present)",
   "encoding/json serialisation",
  ],
 },
 "C02": {
  "title": "Diagnostics are well located",
  "harnesses": [LOC, LOC_LONG, LOC_TAIL, TRACE1, TRACE2, TRACE3, {"pkg": "jerr", "fn": "VerifH_LocationIndependent", "quick": {"N": 2}, "thorough": {"N": 3}},
   next_total(3, 5, [0, 1, 5, 9, 12, 15]),
   scan_project({"N": 2, "M": 1}, {"N": 3, "M": 2}, [0, 1, 2, 7, 14, 16]),
   doc("VerifH_PipelineTotal", {"K": 2, "MENU": 0}, {"K": 3, "MENU": 0}, budget_violation=True),
   doc("VerifH_PipelineTotal", {"K": 2, "MENU": 1}, {"K": 3, "MENU": 1}, budget_violation=True, full_schema_lib=True),
   doc("VerifH_StaticChecks", {"K": 3, "MENU": 0}, {"K": 4, "MENU": 0}),
   doc("VerifH_StaticChecks", {"K": 3, "MENU": 1}, {"K": 4, "MENU": 1}, full_schema_lib=True),
   ATTRIB,
  ],
  "assumptions": ["same stubs as C01 for the scanner / scanProject instances",
                  "document level (L-doc templates, see C04): every diagnostic lies inside the file; a structural fault (duplicate, second singleton, missing name, bodiless response, undeclared tag) is reported at the keyword of one of the directives that make it up; a dangling user-type reference inside a schema body (response @x / [@x], allOf) - which only the schema library notices - is reported inside the text of a directive containing such a reference"],
  "not_decided": ["attribution of schema-library errors other than dangling type references (syntax errors inside bodies, rule violations)", "contents longer than the bounds", "line and quote at document level (jerr.NewLocation is summarised there; its arithmetic is decided by VerifH_LocationSpec)"],
 },
 "C03": {
  "title": "Determinism",
  "harnesses": [TAGMARSHAL, 
   doc("VerifH_Determinism", {"K": 4, "MENU": 1}, {"K": 5, "MENU": 1}, maporder=True, replay_repeat=30),
   doc("VerifH_Determinism", {"K": 2, "MENU": 0}, {"K": 3, "MENU": 0}, maporder=True, replay_repeat=30),
   {"pkg": "core", "fn": "VerifH_DeterminismUnusedParams", "quick": {}, "thorough": {}, "maporder": True, "replay_repeat": 30},
   doc("VerifH_DeterminismPathBinding", {}, {}, maporder=True, replay_repeat=30),
   doc("VerifH_CrossProject", {"K": 1}, {"K": 2}),
   CROSSINC,
   doc("VerifH_Determinism", {"K": 3, "MENU": 2}, {"K": 4, "MENU": 2}, full_schema_lib=True),
  ],
  "assumptions": DOC_ASSUME + ["map iteration order is a nondeterministic choice: at every Next of a map range the engine forks over all not yet visited entries, independently in the two runs of the self-composition",
                               "a counterexample is replayed natively up to 30 times (the Go runtime picks the order at random)"],
  "not_decided": DOC_NOT + ["byte-identical JSON (encoding/json not encoded)", "nondeterminism inside the schema library or the regex example generator beyond the generated examples of the template documents (MENU 2: a regex type with several matches embedded in an object's example; the clock model gives every reading a later instant)", "cross-process / concurrent determinism",
                            "map ranges over enum rules (compileUserTypeWithAllDependencies, prepareJSightSchema): they only matter when the schema library's AddRule fails for two rules at once"],
 },
 "C04": {
  "title": "Catalog faithfulness",
  "harnesses": [STRUCT, STRUCT_TAGS, STRUCT_PARENS, STRUCT_RESP, STRUCT_SCHEMA, STRUCT_RPC, ANNOT_IN],
  "assumptions": DOC_ASSUME + ["reference model (refCatalogSig): reads info, servers, types, tags (declared first, then automatic per first path segment), and interactions with id / method / path / annotation / description / tags / request / responses off the template sequence using the C06 reference resolver for nesting",
                                "schema-bearing menus (MENU 3, 4, 5) run the real schema library: object TYPE, ENUM (value tree), responses that are a reference or an array of references (usedUserTypes), object Request, response Headers, JSON-RPC Method with Params and Result; the reference gives the expected schema tree (key, token type, type, scalar) per template"],
  "not_decided": ["documents outside the template menus or longer than K lines", "schema bodies other than the templates' (the notation regex, nested objects, rules / annotations inside bodies, Query)", "the JSON rendering", "documents with MACRO / PASTE (compared relationally by C07)"],
 },
 "C05": {
  "title": "Surface syntax is immaterial",
  "harnesses": [doc("VerifH_SurfaceSyntax", {"K": 2, "MENU": 0, "CM": 1}, {"K": 3, "MENU": 0, "CM": 0}, instances=[{}], instances_thorough=[{"K": 2, "CM": 2}]),
                doc("VerifH_SurfaceSyntax", {"K": 2, "MENU": 1, "CM": 1}, {"K": 3, "MENU": 1, "CM": 0}, full_schema_lib=True),
                doc("VerifH_SurfaceSyntax", {"K": 3, "MENU": 2, "CM": 0}, {"K": 4, "MENU": 2, "CM": 0}, full_schema_lib=True),
                {"pkg": "directive", "fn": "VerifH_QuoteNeutral", "quick": {"N": 4}, "thorough": {"N": 6}}],
  "assumptions": DOC_ASSUME + ["one rewriting per run, at a symbolic position: comment line, block-comment line, blank line, indentation (spaces / tab), trailing blanks, trailing comment, CRLF or CR for every line end, quotes around a parameter, parentheses around the children of a directive"],
  "not_decided": DOC_NOT + ["combinations of several rewritings", "rewritings inside schema bodies and multi-line free text", "byte-level relational scanner harness (two scanners in lock step on symbolic bytes)"],
 },
 "C06": {
  "title": "Context resolution",
  "harnesses": [CTX, {"pkg": "core", "fn": "VerifH_ContextAfterPaste", "quick": {"K": 5}, "thorough": {"K": 6}, "stubsets": ["location"], "tabsets": ["kinds"]}],
  "assumptions": [
   "directive kinds are symbolic over all 30 values; the admissibility predicates (IsAllowedForDirectiveContext / IsAllowedForRootContext / IsHTTPRequestMethod) are tabulated from the real code on each run (900+30+30 concrete executions) and used as exact summaries",
   "events are fed through the real processCurrentDirective / processContextEnd / processEOF; the lexeme-to-event mapping of core.next is covered by the C01 scanProject harness",
   "jerr.NewLocation summarised (positions are not the subject here)",
  ],
  "not_decided": ["sequences longer than K events", "re-resolution after paste (see C07)"],
 },
 "C07": {
  "title": "MACRO / PASTE",
  "harnesses": [
   {"pkg": "core", "fn": "VerifH_PasteEqualsInline", "quick": {"K": 3, "MENU": 0}, "thorough": {"K": 4, "MENU": 0}, "stubsets": ["location"], "budget_violation": True, "depth_budget": 300},
   {"pkg": "core", "fn": "VerifH_PasteEqualsInline", "quick": {"K": 5, "MENU": 1}, "thorough": {"K": 6, "MENU": 1}, "stubsets": ["location"], "budget_violation": True, "depth_budget": 300},
   PGRAPH,
   doc("VerifH_PasteEqualsInline", {"K": 3, "MENU": 3}, {"K": 4, "MENU": 3}, budget_violation=True, depth_budget=300, full_schema_lib=True),
   doc("VerifH_PasteEqualsInline", {"K": 4, "MENU": 4}, {"K": 5, "MENU": 4}, budget_violation=True, depth_budget=300, full_schema_lib=True),
  ],
  "assumptions": [
   "schema-bearing instances (MENU 3: MACRO, PASTE, ENUM with a body, TYPE with an object body, GET with path, 200 @type): the real schema library is interpreted by the engine on the concrete bodies (no stub)",
   "documents: 'JSIGHT 0.3' followed by K lines from a menu of directive templates (MACRO, PASTE, URL, GET, GET with path, 200, 404, TYPE, TAG, SERVER; small menu: MACRO, PASTE, GET with path, 200); names and path segments are symbolic bytes over {a,b}; only schema-free notations (any/empty), so the whole real pipeline runs from the document text",
   "the catalog is compared through a structural rendering of every collection (not through encoding/json)",
   "call-depth budget 300 as the bound for 'in bounded time'; exceeding it is replayed natively under a timeout / stack limit",
   "jerr.NewLocation summarised",
  ],
  "not_decided": ["documents outside the template menus or longer than K lines", "macros whose bodies contain schema bodies (ENUM rules inside macros)"],
 },
 "C08": {
  "title": "INCLUDE",
  "harnesses": [
   {"pkg": "core", "fn": "VerifH_IncludePath", "quick": {"N": 4}, "thorough": {"N": 6}, "stubsets": ["vfs", "location"]},
   {"pkg": "core", "fn": "VerifH_IncludeTargetKinds", "quick": {"N": 3}, "thorough": {"N": 5}, "stubsets": ["vfs", "location"]},
   STACKINV,
   {"pkg": "core", "fn": "VerifH_IncludeQuoted", "quick": {"N": 3}, "thorough": {"N": 5}, "stubsets": ["vfs", "location"]},
   {"pkg": "core", "fn": "VerifH_IncludeEquivalence", "quick": {"KR": 3, "NEST": 0}, "thorough": {"KR": 4, "NEST": 0}, "stubsets": ["location", "vfs-files"], "full_schema_lib": True},
   {"pkg": "core", "fn": "VerifH_IncludeEquivalence", "quick": {"KR": 2, "NEST": 1}, "thorough": {"KR": 3, "NEST": 1}, "stubsets": ["location", "vfs-files"], "full_schema_lib": True},
   {"pkg": "core", "fn": "VerifH_IncludeEquivalence", "quick": {"KR": 2, "NEST": 2}, "thorough": {"KR": 3, "NEST": 2}, "stubsets": ["location", "vfs-files"], "full_schema_lib": True},
  ],
  "assumptions": [
   "os.Stat contract: the directory of the including file and its ancestors exist and are directories; any other path is absent, a directory, a regular file or fails otherwise",
   "names are bare parameters: bytes that terminate or quote a parameter (blank, line end, '#', '\"', NUL) are excluded",
  ],
  "not_decided": ["textual-inclusion equivalence beyond the shapes of VerifH_IncludeEquivalence (one run of 1..KR lines under a URL / method, included from two places of one file: directly, through one intermediate file, or cut into two files included one after the other)", "symbolic links / OS path semantics", "names longer than N bytes"],
 },
 "C09": {
  "title": "Accepted means serialisable",
  "harnesses": [
   {"pkg": "catalog", "fn": "VerifH_OrderedMaps", "quick": {}, "thorough": {}, "instances": [{"T": t} for t in range(5)], "lock_monitor": True, "no_replay_kinds": ["lock"], "no_replay_asserts": ["C16.ordmap.update-callback-under-write-lock"]},
   {"pkg": "catalog", "fn": "VerifH_IdInjective", "quick": {"N": 3}, "thorough": {"N": 4}},
   {"pkg": "catalog", "fn": "VerifH_IdKeyText", "quick": {"N": 2}, "thorough": {"N": 3}},
   STRUCT, STRUCT_TAGS, STRUCT_RESP,
   MKEY, MSHAPE,
  ],
  "assumptions": ["generated MarshalJSON of the ordered collections (Servers, UserTypes, UserRules, Tags, Interactions; 0..3 entries, thorough 4): with encoding/json.Marshal replaced by a stub returning arbitrary bytes, the result is exactly '{' k1 ':' v1 ',' ... '}' over the stub's answers in insertion order, so it is a valid JSON object with one member per entry whenever keys and values render to valid JSON",
                  "ordered collections: pre-state is any state with at most 3 entries satisfying the representation invariant; one step is inductive for histories of any length",
                  "collection keys are 1-byte strings (the code never looks inside a key)"],
  "not_decided": ["validity of the JSON produced by encoding/json (not encoded): UTF-8, equality of indented and compact forms, duplicate keys inside struct-generated objects",
                  "existence of every used user type / enum named by schema-library ASTs"],
 },
 "C16": {
  "title": "Concurrency (reduced to lock discipline and sequential non-interference)",
  "harnesses": [
   {"pkg": "catalog", "fn": "VerifH_OrderedMaps", "quick": {}, "thorough": {}, "instances": [{"T": t} for t in range(5)], "lock_monitor": True, "no_replay_kinds": ["lock"], "no_replay_asserts": ["C16.ordmap.update-callback-under-write-lock"]},
   MARSHAL,
   CROSSINC,
   doc("VerifH_CrossProject", {"K": 1}, {"K": 2}),
   doc("VerifH_SharedOptions", {"K": 1}, {"K": 2}),
  ],
  "assumptions": ["lockset monitor: every load/store of the collection's data/order fields, of the map object and of the order slice's elements must happen with the collection's mutex held (write-held for writes); Lock on a held mutex = self-deadlock; no lock may remain held after the operation",
                  "violations of kind 'lock' are not replayed natively (a single-threaded run cannot exhibit them)",
                  "sequential non-interference: (a) the bytes returned by one MarshalJSON of a collection are unchanged by later MarshalJSON calls of the same or another collection (encoding/json.Marshal replaced by a stub returning arbitrary non-empty bytes; sync.Pool modelled as one goroutine sees it: Get returns what was Put last); (b) a project validated after another project (also: at the same place of the file system with a different included file) gives the result it gives alone; (c) a project created with an Option value that was also used (together with a second banned-directives option) for another project gives the result it gives with a fresh option"],
  "not_decided": ["everything schedule-dependent: data races between goroutines, equality of concurrent and solo results under real interleavings, races inside the schema library / regexp / reggen",
                  "shared mutable package state is decided only through its sequential effects: a later validation or serialisation must not change or depend on an earlier one (VerifH_CrossProject*, VerifH_MarshalStable)"],
 },
 "C10": {
  "title": "Declaration order is free",
  "harnesses": [doc("VerifH_OrderTopLevel", {"K": 3, "MENU": 0}, {"K": 4, "MENU": 0}), doc("VerifH_OrderTopLevel", {"K": 3, "MENU": 1}, {"K": 4, "MENU": 1}),
                doc("VerifH_AllOfOrder", {}, {}),
                doc("VerifH_OrderTopLevel", {"K": 3, "MENU": 2}, {"K": 4, "MENU": 2}, full_schema_lib=True),
                doc("VerifH_OrderTopLevel", {"K": 3, "MENU": 3}, {"K": 4, "MENU": 3})],
  "assumptions": DOC_ASSUME + ["permutation = swap of two adjacent top-level blocks (generates all permutations), kept only when every line keeps its parent under the C06 reference resolver; the JSIGHT header stays first"],
  "not_decided": DOC_NOT + ["order effects inside the schema library (lazy loading of rules / types): the library is not encoded", "declaration-order effects through more than three types"],
 },
 "C11": {
  "title": "Static checks are sound",
  "harnesses": [doc("VerifH_StaticChecks", {"K": 3, "MENU": 0}, {"K": 4, "MENU": 0}),
                doc("VerifH_StaticChecks", {"K": 4, "MENU": 1}, {"K": 5, "MENU": 1}, full_schema_lib=True),
                doc("VerifH_StaticChecks", {"K": 2, "MENU": 2}, {"K": 3, "MENU": 2}, full_schema_lib=True),
                ATTRIB,
                {"pkg": "core", "fn": "VerifH_SimilarPaths", "quick": {"N": 4}, "thorough": {"N": 6}}],
  "assumptions": DOC_ASSUME + ["fault predicates (refFaults): duplicate TYPE / SERVER / TAG name, same URL path twice, same method on the same path twice, second Title / Version / Description / Protocol / BaseUrl under one parent, Tags naming a tag no TAG directive declares (when some method uses that Tags directive)"],
  "not_decided": DOC_NOT + ["dangling references other than user types named by a response body / array item / allOf rule (enum references, Path / Query / Headers / Request bodies)", "faults injected through INCLUDE", "required-parameter faults (the templates always carry their parameters)", "similar paths beyond one registered path from a 5-entry menu against one symbolic path of N bytes over / { } a b"],
 },
 "C12": {
  "title": "allOf inheritance",
  "harnesses": [doc("VerifH_AllOf", {}, {}), doc("VerifH_AllOfDoc", {"K": 3}, {"K": 4}, full_schema_lib=True),
                doc("VerifH_AllOfSites", {"K": 2}, {"K": 3}, full_schema_lib=True),
                doc("VerifH_AllOfThreeBases", {}, {}, full_schema_lib=True)],
  "assumptions": ["three bases in one rule (VerifH_AllOfThreeBases): concrete bases @a {pa}, @b {pb, qb}, @c {pc}; @d names all three in one allOf rule in any of the 6 orders, at the root or in a nested object, declared at any of the 4 places among the bases; whole pipeline with the real schema library", "catalog-struct level: three user types @a @b @c built directly as catalog structs (object schemas whose properties are string scalars, an allOf rule of reference items), own key sets from {}, {x}, {y|z}, {x, y|z}, every acyclic inheritance graph in which a type names only later types as bases (0, 1 or 2 bases, both orders), all 6 insertion orders",
                  "initial UsedUserTypes of a schema = its direct allOf bases (what the AST conversion records)",
                  "a key inherited through two bases may be taken from either (the statement says 'exactly once'); same-base properties must keep the base's order and bases must appear in the order named"],
  "not_decided": ["allOf sites beyond VerifH_AllOfSites (one method with up to K schema-bearing children out of 204 any / 200 body / 404 with Headers / Request body / Request Headers / Query / Path, bases @a and @b allOf @a): several methods, macros, JSON-RPC Params / Result", "cyclic allOf (rejected by the schema library)", "more than three types"],
 },
 "C13": {
  "title": "Path parameters",
  "harnesses": [
   {"pkg": "core", "fn": "VerifH_PathParameters", "quick": {"N": 6}, "thorough": {"N": 9}},
   doc("VerifH_PathBinding", {}, {}),
   doc("VerifH_PathDoc", {"K": 4}, {"K": 5}, full_schema_lib=True),
   doc("VerifH_CheckPathSchema", {}, {}),
  ],
  "assumptions": ["binding: 0..2 Path directives (path from a menu of 5 paths, schema keys from {id}, {nm}, {id,nm}, {zz}) and 1..2 HTTP interactions with distinct paths from the same menu, built as catalog structs; the reference binding uses the independent byte-wise splitter of the first harness",
                  "path schema: root and children token types over all 7 JSON/JSight token types, 0..2 children, one optional rule from {additionalProperties, nullable, or, optional}"],
  "not_decided": ["shortcut expansion of a Path body through a user type at document level (struct level: two directives sharing one user-type body)", "paths longer than N bytes / outside the menus",
                  "document level beyond VerifH_PathDoc: one URL /a/{x}/{y} with up to K lines out of Path {x}, Path {y}, GET, POST, GET /a/{x}/{y}/z (real scanner, context resolution, collectPathVariables, schema library)"],
 },
 "C14": {
  "title": "Lexical integrity",
  "harnesses": [next_total(3, 5, SCAN_ALL), next_total(2, 3, [0, 1, 8, 12], stubsets=["schema-len"]), next_total(4, 6, [4, 15, 29, 30, 31])],
  "assumptions": ["same stubs as C01; a body lexeme is compared with the (offset, length) the delimiting stub returned"],
  "not_decided": ["that the schema library's Len() delimits exactly one value", "inputs longer than prefix + N bytes"],
 },
 "C15": {
  "title": "Descriptions and annotations",
  "harnesses": [
   {"pkg": "catalog", "fn": "VerifH_Annotation", "quick": {"N": 5, "INTERIOR": 0}, "thorough": {"N": 7, "INTERIOR": 0}},
   ANNOT_IN,
   {"pkg": "core", "fn": "VerifH_DescriptionNormal", "quick": {"N": 4, "ALPHA": 0}, "thorough": {"N": 5, "ALPHA": 0}},
   {"pkg": "core", "fn": "VerifH_DescriptionNormal", "quick": {"N": 5, "ALPHA": 1}, "thorough": {"N": 6, "ALPHA": 1}},
   {"pkg": "core", "fn": "VerifH_DescriptionParens", "quick": {"N": 6}, "thorough": {"N": 8}},
   doc("VerifH_DescriptionDoc", {"N": 4}, {"N": 6}),
  ],
  "assumptions": ["description texts: ASCII without NUL, VT, FF", "regexp engine not encoded: (*Regexp).ReplaceAllString is an engine intrinsic for the single pattern \\s+ (Perl class [\\t\\n\\f\\r ])", "ASCII texts"],
  "not_decided": ["scanner/normaliser agreement on where a description ends", "non-ASCII whitespace (VT, FF, NEL, NBSP are outside the statement's alphabet)", "texts longer than N bytes"],
 },
 "C17": {
  "title": "Parameters round-trip",
  "harnesses": [
   {"pkg": "directive", "fn": "VerifH_UnescapeRoundTrip", "quick": {"N": 5}, "thorough": {"N": 8}},
   {"pkg": "directive", "fn": "VerifH_QuoteNeutral", "quick": {"N": 4}, "thorough": {"N": 6}},
   doc("VerifH_ParameterDoc", {"N": 3}, {"N": 4}),
   doc("VerifH_ParameterEscapes", {"N": 4}, {"N": 6}),
   doc("VerifH_ParameterPath", {"N": 3}, {"N": 5}),
  ],
  "assumptions": ["path clause (VerifH_ParameterPath): '/' + up to N bytes (bare over {a b . - /} not starting with '/', quoted over {a blank # / \" \\}) as the parameter of GET or of URL with a path-less GET inside; asserted only when the document is accepted (which paths are acceptable is another rule): exactly one HTTP interaction, whose path is the written text byte for byte", "whole pipeline (VerifH_ParameterDoc): hosts Title, Version, BaseUrl, JSON-RPC Method name; the value is followed by one of: LF, blank LF, TAB LF, blank or TAB and an annotation (Method only), blank or TAB and a comment, end of input; bare values are N bytes over {a b . - @ : / *} not starting with // or /*; quoted values are N bytes over {a blank TAB \" \\ # / *} containing an 'a'; jerr.NewLocation summarised"],
  "not_decided": ["values longer than N bytes", "the rejection clauses beyond VerifH_ParameterEscapes (raw quoted text of N bytes over {a \\ / n} under Title, BaseUrl, Method: a backslash before anything but a backslash is rejected at that byte, a lone backslash before the closing quote leaves the quote unterminated)", "hosts Query example and path"],
 },
 "C18": {
  "title": "Banned directives",
  "harnesses": [doc("VerifH_Banned", {"K": 2, "PAIRS": 0}, {"K": 3, "PAIRS": 0}, stubsets=["location", "vfs-files"]),
                doc("VerifH_Banned", {"K": 1, "PAIRS": 1}, {"K": 2, "PAIRS": 1}, stubsets=["location", "vfs-files"])],
  "assumptions": DOC_ASSUME + ["banned sets are singletons and pairs over the kinds of the menu (INFO, Title, SERVER, URL, GET, POST, 200, TYPE, TAG, MACRO, PASTE, INCLUDE) and ENUM, which occurs only as the first directive of the included file inc.jst (virtual file system)", "the run with the option is compared with the run without it on the same symbolic document"],
  "not_decided": DOC_NOT + ["banned sets of more than two kinds", "banned kinds deeper inside included files"],
 },
 "C19": {
  "title": "Tags",
  "harnesses": [
   {"pkg": "catalog", "fn": "VerifH_TagNameInverse", "quick": {"N": 4}, "thorough": {"N": 5}, "tabsets": ["urlescape"]},
   {"pkg": "catalog", "fn": "VerifH_PathTagTitle", "quick": {"N": 5}, "thorough": {"N": 8}},
   STRUCT, STRUCT_TAGS, STRUCT_PARENS,
  ],
  "assumptions": ["net/url.shouldEscape tabulated from the real standard-library code (256 x 8 concrete executions) and used as an exact summary"],
  "not_decided": ["segments longer than N bytes", "documents outside the template menu of the structure harness"],
 },
 "C20": {
  "title": "Locality",
  "harnesses": [doc("VerifH_Locality", {"K": 2, "MENU": 0}, {"K": 3, "MENU": 0}),
                doc("VerifH_Locality", {"K": 2, "MENU": 1}, {"K": 3, "MENU": 1}, full_schema_lib=True),
                doc("VerifH_LocalityPathShortcut", {}, {}, full_schema_lib=True)],
  "assumptions": DOC_ASSUME + ["a declaration that only reads a type (VerifH_LocalityPathShortcut): TYPE @t {id} with the property marked optional / not optional / unmarked, with or without a method GET /c/{id} whose Path body is the shortcut @t; the added declaration is GET /a1/{id} with the same shortcut, before or after; the entry of @t is compared with its optional marks, which verifSig does not render", "fresh declarations (names @a1 / /a1, sharing a string prefix with existing names): SERVER, TAG, TYPE any, parenthesised unused MACRO, GET with a 200 response, and - with the real schema library (MENU 1) - ENUM and an object TYPE; inserted before any top-level line or at the end"],
  "not_decided": DOC_NOT + ["coupling through the schema library (every schema receives every type and rule)", "allOf graphs"],
 },
}

LEVEL_TEXT = ("bounded symbolic execution of the real Go code (SSA of /repo rebuilt on every run) with an SMT solver deciding "
              "every path-feasibility and assertion query: within the stated bounds the claim holds for every input, not a sample; "
              "counterexamples are replayed against the natively compiled code before they are reported")
LEVEL_NOTE = ("trusted: go/ssa v0.29.0 semantics, the gosym interpreter/intrinsics, z3 4.8.12, the reference oracles and stub contracts "
              "listed in the evidence; outside the claim: inputs beyond the bounds and the parts listed under not_decided in the evidence")

def main():
    json.dump(CHECKS, open(os.path.join(V, "checks.json"), "w"), indent=1)
    props = [json.loads(l) for l in open(os.path.join(V, "properties.jsonl"))]
    na_reasons = json.load(open(os.path.join(V, "tools", "not_applicable.json")))
    checks = []
    for p in props:
        pid = p["id"]
        if pid not in CHECKS:
            continue
        checks.append({
            "property_id": pid,
            "quick_cmd": f"/verif/bin/gosym check {pid} --tier quick",
            "thorough_cmd": f"/verif/bin/gosym check {pid} --tier thorough",
            "evidence_file": f"/verif/evidence/{pid}.json",
            "replay_cmd_template": "/verif/bin/gosym replay {path}",
            "engine": "gosym",
            "level_claimed": {"category": "model_checking",
                              "text": LEVEL_TEXT + ". Harnesses (entry points encoded): " + ", ".join(sorted({h["pkg"] + "." + h["fn"] for h in CHECKS[pid]["harnesses"]})) + ".",
                              "design_ref": f"DESIGN.md section 4 ({pid}) and section 10"},
            "level_note": LEVEL_NOTE + ". Not decided for this property: " + "; ".join(CHECKS[pid]["not_decided"]) + ".",
            "technique": "SMT-based bounded symbolic execution of Go SSA (own engine, z3), native replay of models",
        })
    m = {
        "version": 1,
        "setup_cmd": "cd /verif/engine && GOFLAGS=-mod=mod GOPROXY=off GOSUMDB=off GOTOOLCHAIN=local go build -o /verif/bin/gosym ./cmd/gosym",
        "hooks": {"guard": "verif", "enable": "no hooks in /repo: harnesses are injected with go/packages Overlay (symbolic run) and go test -overlay (native replay)",
                  "baseline_off_cmd": "cd /repo && go test -mod=mod -vet=off -count=1 -timeout 25m ./...", "source_commits": [], "add_only": True},
        "engines": [{"name": "gosym", "path": "/verif/engine", "serves_properties": sorted(CHECKS.keys()),
                     "kind_free_text": "symbolic executor for Go SSA (x/tools v0.29.0) emitting SMT-LIB2 bit-vector queries to a long-lived z3; native replay of models via go test -overlay"}],
        "checks": checks,
        "not_applicable": [{"property_id": p["id"], "reason": na_reasons.get(p["id"], "check not built yet; see DESIGN.md")} for p in props if p["id"] not in CHECKS],
        "notes": "All checks share one engine; bounds per tier are in /verif/checks.json; findings policy in /verif/known_findings.json and DESIGN.md section 7.",
    }
    json.dump(m, open(os.path.join(V, "MANIFEST.json"), "w"), indent=1)

if __name__ == "__main__":
    main()
