#!/usr/bin/env python3
"""Prints the markdown table of seeded regressions and what detects them (from seeded/*/meta.json)."""
import json, os, glob
rows = []
for d in sorted(glob.glob('/verif/seeded/*')):
    m = json.load(open(os.path.join(d, 'meta.json')))
    det = []
    for x in m.get('detection', []):
        parts = x.split()
        cid, rc, nv = parts[0], parts[1], parts[2]
        if rc == 'rc=1':
            first = ' '.join(parts[3:])
            what = ''
            if 'assert ' in first:
                what = first.split('assert ')[1].split(':')[0]
            elif 'budget' in first:
                what = 'budget/termination'
            elif 'panic' in first:
                what = 'panic'
            elif 'lock' in first:
                what = 'lock discipline'
            det.append(f"{cid} ({what})" if what else cid)
        elif rc == 'rc=2':
            det.append(f"{cid}: inconclusive")
    missed = [x.split()[0] for x in m.get('detection', []) if x.split()[1] == 'rc=0']
    rows.append((os.path.basename(d), m['property'], m['summary'].replace('|', '/')[:150], ', '.join(det) or '-', ', '.join(missed) or '-', m['confirmed']['base']))
print('| seed | property | change (abridged) | quick checks that report it | quick checks that pass | base |')
print('|---|---|---|---|---|---|')
for r in rows:
    print('| ' + ' | '.join(r) + ' |')
