#!/bin/bash
# usage: tools/try_seed.sh <worktree-with-seed> <check ids...>
# runs the given quick checks against the worktree (gosym --repo), not against /repo
WT=$1; shift
for id in "$@"; do
  out=$(/verif/bin/gosym check $id --repo $WT 2>&1)
  rc=$?
  echo "== $id rc=$rc"
  echo "$out" | grep -E "^VIOLATION|^violation|^KNOWN|^INCONCLUSIVE|passed|inconclusive" | cut -c1-260 | head -8
done
