#!/bin/bash
# usage: tools/seed_wt.sh <seed-name>   -> creates /tmp/seedwt-<name> (worktree of the seed's base with the patch applied) and prints the path
# remove with: git -C /repo worktree remove --force /tmp/seedwt-<name>
s=$1; D=/verif/seeded/$s
BASE=$(python3 -c "import json;print(json.load(open('$D/meta.json'))['confirmed']['base'])")
W=/tmp/seedwt-$s
rm -rf $W; git -C /repo worktree prune; git -C /repo worktree add -q --detach $W $BASE || exit 1
(cd $W && git apply $D/patch.diff) || exit 1
echo $W
