#!/bin/bash
# usage: tools/confirm_seed.sh <agent-worktree> <seed-name>
# Re-checks an agent's seeded regression in a fresh scratch worktree of /repo HEAD and, if everything
# holds, stores it under /verif/seeded/<seed-name>/.
set -u
SRC=$1; NAME=$2; BASE=${3:-HEAD}
export GOFLAGS=-mod=mod GOPROXY=off GOSUMDB=off GOTOOLCHAIN=local
W=/tmp/confirm-$NAME
rm -rf $W; git -C /repo worktree prune; git -C /repo worktree add -q --detach $W $BASE || exit 2
DEMO=$(python3 -c "import json;print(json.load(open('$SRC/SEED_meta.json'))['demo'])")
RUNPAT=$(python3 -c "
import json,re
c=json.load(open('$SRC/SEED_meta.json'))['demo_cmd']
m=re.search(r'-run[ =]+(\S+)',c); print(m.group(1).strip('\"\'') if m else '.')")
PKG=./$(dirname $DEMO)
res() { echo "$1"; }
cd $W
git apply $SRC/SEED_patch.diff || { echo "patch does not apply"; exit 1; }
go build ./... || { echo "build fails"; exit 1; }
SUITE=$(go test -vet=off -count=1 ./... 2>&1 | grep -v "no test files" | grep -cv "^ok")
cp $SRC/$DEMO $W/$DEMO
go test -vet=off -count=1 -run "$RUNPAT" $PKG > /tmp/confirm-$NAME.with.log 2>&1; WITH=$?
git checkout -q -- . ; 
go test -vet=off -count=1 -run "$RUNPAT" $PKG > /tmp/confirm-$NAME.without.log 2>&1; WITHOUT=$?
cd /; git -C /repo worktree remove --force $W
echo "suite_nonok_lines=$SUITE demo_with_patch_rc=$WITH demo_without_patch_rc=$WITHOUT"
if [ "$SUITE" = "0" ] && [ "$WITH" != "0" ] && [ "$WITHOUT" = "0" ]; then
  D=/verif/seeded/$NAME; mkdir -p $D
  cp $SRC/SEED_patch.diff $D/patch.diff; cp $SRC/$DEMO $D/$(basename $DEMO)
  python3 - <<PY
import json
m=json.load(open('$SRC/SEED_meta.json'))
m['demo_file']='$(basename $DEMO)'; m['demo_package']='$(dirname $DEMO)'
m['confirmed']={'base':'$(git -C /repo rev-parse --short $BASE)','patch_applies':True,'builds':True,'suite_passes_with_patch':True,'demo_fails_with_patch':True,'demo_passes_without_patch':True,
 'how':'tools/confirm_seed.sh: fresh worktree of /repo HEAD, git apply, go build ./..., go test ./..., demo with and without the patch'}
json.dump(m,open('$D/meta.json','w'),indent=1)
PY
  echo "CONFIRMED -> $D"
else
  echo "NOT CONFIRMED"; tail -5 /tmp/confirm-$NAME.with.log; tail -5 /tmp/confirm-$NAME.without.log
fi
