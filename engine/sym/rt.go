package sym

import (
	"fmt"
	"sort"
	"strings"
)

// verifrt: the harness-side API, intercepted by name.

func (ex *Exec) freshName(base string) string {
	k := ex.nameCount[base]
	ex.nameCount[base] = k + 1
	return fmt.Sprintf("%s#%d", base, k)
}

func (ex *Exec) newVar(name string, w uint8) *Term {
	if _, dup := ex.vars[name]; dup {
		panic(inconclusive{"duplicate symbolic variable " + name})
	}
	ex.vars[name] = w
	ex.varOrder = append(ex.varOrder, name)
	return Var(name, w)
}

func concreteStr(v Val, what string) string {
	s, ok := v.(Str).concrete()
	if !ok {
		panic(inconclusive{what + " must be a concrete string"})
	}
	return s
}

func (ex *Exec) symBytes(name string, n int) []*Term {
	base := ex.freshName(name)
	r := make([]*Term, n)
	for i := range r {
		r[i] = ex.newVar(fmt.Sprintf("%s[%d]", base, i), 8)
	}
	return r
}

func (eng *Engine) verifrtIntrinsic(name string) Intrinsic {
	switch name {
	case "Symbolic":
		return func(ex *Exec, fr *frame, args []Val) Val { return True }
	case "Bound":
		return func(ex *Exec, fr *frame, args []Val) Val {
			n := concreteStr(args[0], "Bound name")
			v, ok := ex.eng.Cfg.Bounds[n]
			if !ok {
				panic(inconclusive{"bound " + n + " not configured"})
			}
			return Const(64, uint64(int64(v)))
		}
	case "Byte":
		return func(ex *Exec, fr *frame, args []Val) Val {
			return ex.newVar(ex.freshName(concreteStr(args[0], "var name")), 8)
		}
	case "Bool":
		return func(ex *Exec, fr *frame, args []Val) Val {
			return ex.newVar(ex.freshName(concreteStr(args[0], "var name")), 0)
		}
	case "Bytes":
		return func(ex *Exec, fr *frame, args []Val) Val {
			n := ex.concreteInt(args[1], "Bytes length")
			bs := ex.symBytes(concreteStr(args[0], "var name"), int(n))
			cells := make([]Val, len(bs))
			for i, b := range bs {
				cells[i] = b
			}
			return SliceV{A: cells}
		}
	case "String":
		return func(ex *Exec, fr *frame, args []Val) Val {
			n := ex.concreteInt(args[1], "String length")
			return Str(ex.symBytes(concreteStr(args[0], "var name"), int(n)))
		}
	case "Int", "Choice":
		choice := name == "Choice"
		return func(ex *Exec, fr *frame, args []Val) Val {
			v := ex.newVar(ex.freshName(concreteStr(args[0], "var name")), 64)
			var lo, hi int64
			if choice {
				lo, hi = 0, ex.concreteInt(args[1], "Choice n")-1
			} else {
				lo, hi = ex.concreteInt(args[1], "Int lo"), ex.concreteInt(args[2], "Int hi")
			}
			if hi < lo {
				panic(pathEnd{"empty range"})
			}
			ex.assume(And(Cmp(OpSLe, Const(64, uint64(lo)), v), Cmp(OpSLe, v, Const(64, uint64(hi)))))
			if choice {
				return Const(64, ex.concretize(v, "Choice"))
			}
			return v
		}
	case "Concrete":
		return func(ex *Exec, fr *frame, args []Val) Val {
			t := args[0].(*Term)
			return Const(t.W, ex.concretize(t, "Concrete"))
		}
	case "Assume":
		return func(ex *Exec, fr *frame, args []Val) Val {
			ex.live()
			ex.assume(args[0].(*Term))
			return nil
		}
	case "Assert":
		return func(ex *Exec, fr *frame, args []Val) Val {
			ex.live()
			ex.assert(concreteStr(args[0], "assert id"), args[1].(*Term))
			return nil
		}
	case "Reach":
		return func(ex *Exec, fr *frame, args []Val) Val {
			ex.doReach(concreteStr(args[0], "reach id"), args[1].(*Term))
			return nil
		}
	case "Stop":
		return func(ex *Exec, fr *frame, args []Val) Val {
			panic(pathEnd{"stop"})
		}
	case "Note":
		return func(ex *Exec, fr *frame, args []Val) Val {
			ex.notes[concreteStr(args[0], "note key")] = args[1].(Str).show()
			return nil
		}
	case "NoteInt":
		return func(ex *Exec, fr *frame, args []Val) Val {
			ex.notes[concreteStr(args[0], "note key")] = show(args[1])
			return nil
		}
	case "Faults":
		// number of run-time faults raised so far on this path (even if recovered)
		return func(ex *Exec, fr *frame, args []Val) Val {
			return Const(64, uint64(len(ex.faults)))
		}
	case "LockMonitor":
		return func(ex *Exec, fr *frame, args []Val) Val {
			on := args[0].(*Term).IsTrue()
			ex.lockMonitorOn = on
			return nil
		}
	case "Track":
		return func(ex *Exec, fr *frame, args []Val) Val {
			ex.trackObject(args[0])
			return nil
		}
	case "WriteLocked", "ReadOrWriteLocked":
		write := name == "WriteLocked"
		return func(ex *Exec, fr *frame, args []Val) Val {
			for _, st := range ex.locks {
				if st == -1 || (!write && st > 0) {
					return True
				}
			}
			return False
		}
	case "SharedWrites":
		// number of writes to process-wide state (package-level sync.Map ...) so far on this path
		return func(ex *Exec, fr *frame, args []Val) Val {
			return Const(64, uint64(len(ex.sharedWrites)))
		}
	case "HeldLocks":
		return func(ex *Exec, fr *frame, args []Val) Val {
			n := 0
			for _, st := range ex.locks {
				if st != 0 {
					n++
				}
			}
			return Const(64, uint64(n))
		}
	}
	return nil
}

// live makes sure a valid model is available once the decision prefix has been consumed.
func (ex *Exec) live() {
	if ex.inPrefix() || !ex.needModelAfterPrefix {
		return
	}
	ex.needModelAfterPrefix = false
	r, m := ex.check(nil)
	switch r {
	case Unsat:
		panic(pathEnd{"prefix infeasible"})
	case Unknown:
		panic(inconclusive{"solver unknown on path prefix"})
	}
	ex.model = m
}

func (ex *Exec) doReach(id string, c *Term) {
	if _, ok := ex.reach[id]; !ok {
		ex.reach[id] = 0
	}
	if ex.inPrefix() {
		return
	}
	ex.live()
	hit := false
	var model map[string]uint64
	if c.IsTrue() || (!c.IsFalse() && ex.evalModel(c) == 1) {
		hit = true
		model = ex.model
	} else if !c.IsFalse() {
		r, m := ex.check(c)
		if r == Sat {
			hit = true
			model = m
		}
	}
	if hit {
		ex.reach[id]++
		if len(ex.samples) < 2 {
			s := ex.renderModel(model)
			s["_reach"] = id
			ex.samples = append(ex.samples, s)
			mm := map[string]uint64{}
			for name := range ex.vars {
				mm[name] = model[name]
			}
			ex.sampleModels = append(ex.sampleModels, SampleModel{Reach: id, Model: mm})
		}
	}
}

// renderModel groups byte variables name#k[i] into strings.
func (ex *Exec) renderModel(model map[string]uint64) map[string]string {
	return RenderModel(ex.varOrder, model)
}

func RenderModel(order []string, model map[string]uint64) map[string]string {
	out := map[string]string{}
	groups := map[string][]byte{}
	var gorder []string
	for _, name := range order {
		if i := strings.LastIndexByte(name, '['); i > 0 && strings.HasSuffix(name, "]") {
			g := name[:i]
			if _, ok := groups[g]; !ok {
				gorder = append(gorder, g)
			}
			groups[g] = append(groups[g], byte(model[name]))
			continue
		}
		out[name] = fmt.Sprint(int64(model[name]))
	}
	for _, g := range gorder {
		out[g] = fmt.Sprintf("%q", string(groups[g]))
	}
	return out
}

// ModelOrder returns variable names in a stable order suitable for RenderModel:
// base names sorted, array elements by index.
func ModelOrder(model map[string]uint64) []string {
	names := make([]string, 0, len(model))
	for n := range model {
		names = append(names, n)
	}
	sort.Slice(names, func(i, j int) bool {
		a, b := names[i], names[j]
		ai, bi := strings.LastIndexByte(a, '['), strings.LastIndexByte(b, '[')
		if ai > 0 && bi > 0 && a[:ai] == b[:bi] {
			var x, y int
			fmt.Sscanf(a[ai:], "[%d]", &x)
			fmt.Sscanf(b[bi:], "[%d]", &y)
			return x < y
		}
		return a < b
	})
	return names
}
