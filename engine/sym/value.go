package sym

import (
	"fmt"
	"go/constant"
	"go/types"
	"strings"

	"golang.org/x/tools/go/ssa"
)

// Val is a run-time value of the interpreted program:
//
//	*Term      booleans and integers (Bool / bit-vector terms, constants folded)
//	Str        string: immutable sequence of 8-bit terms, concrete length
//	*Val       pointer (address of a cell); nil pointer is (*Val)(nil)
//	*SymPtr    pointer to an element of a constant table at a symbolic index
//	StructV    struct value
//	ArrayV     array value
//	SliceV     slice (Go slice of cells: aliasing, cap and append semantics for free)
//	*MapV      map
//	Iface      interface value (dynamic type + payload)
//	*ssa.Function, *Closure, *ssa.Builtin   function values
//	Tuple      multiple results
//	FloatV     concrete float (only moved around, never computed symbolically)
//	*Opaque    engine-internal object (regexp, ...)
type Val interface{}

type Str []*Term

type StructV []Val
type ArrayV []Val
type SliceV struct {
	A   []Val // cells; len(A) is the slice length, cap(A) its capacity
	Nil bool
}
type Tuple []Val
type FloatV float64

type Iface struct {
	T types.Type // nil for the nil interface
	V Val
}

type Closure struct {
	Fn  *ssa.Function
	Env []Val
}

type SymPtr struct {
	Arr []Val
	Idx *Term
}

type Opaque struct {
	Kind string
	Data interface{}
}

type mapEntry struct {
	K, V Val
}

type MapV struct {
	KeyT    types.Type
	Entries []mapEntry
}

// rangeIter iterates a map snapshot or a string.
type mapIter struct {
	m       *MapV
	entries []mapEntry
	visited []bool
	pos     int
}

type strIter struct {
	s   Str
	pos int
}

func mkStr(s string) Str {
	r := make(Str, len(s))
	for i := 0; i < len(s); i++ {
		r[i] = byteConsts[s[i]]
	}
	return r
}

// concrete returns the Go string if all bytes are constants.
func (s Str) concrete() (string, bool) {
	b := make([]byte, len(s))
	for i, t := range s {
		if !t.IsConst() {
			return "", false
		}
		b[i] = byte(t.Val)
	}
	return string(b), true
}

func (s Str) show() string {
	var sb strings.Builder
	for _, t := range s {
		if t.IsConst() {
			c := byte(t.Val)
			if c >= 32 && c < 127 {
				sb.WriteByte(c)
			} else {
				fmt.Fprintf(&sb, "\\x%02x", c)
			}
		} else {
			sb.WriteString("?")
		}
	}
	return sb.String()
}

func intWidth(t types.Type) (w uint8, signed bool, ok bool) {
	b, isB := t.Underlying().(*types.Basic)
	if !isB {
		return 0, false, false
	}
	switch b.Kind() {
	case types.Bool, types.UntypedBool:
		return 0, false, true
	case types.Int8:
		return 8, true, true
	case types.Int16:
		return 16, true, true
	case types.Int32, types.UntypedRune:
		return 32, true, true
	case types.Int64, types.Int, types.UntypedInt:
		return 64, true, true
	case types.Uint8:
		return 8, false, true
	case types.Uint16:
		return 16, false, true
	case types.Uint32:
		return 32, false, true
	case types.Uint64, types.Uint, types.Uintptr:
		return 64, false, true
	}
	return 0, false, false
}

// zero returns the zero value of type t.
func zero(t types.Type) Val {
	switch t := t.(type) {
	case *types.Named, *types.Alias:
		return zero(t.Underlying())
	case *types.Basic:
		if t.Kind() == types.UntypedNil {
			panic(inconclusive{"untyped nil has no zero value"})
		}
		if w, _, ok := intWidth(t); ok {
			return Const(w, 0)
		}
		switch t.Kind() {
		case types.String, types.UntypedString:
			return Str(nil)
		case types.Float32, types.Float64, types.UntypedFloat:
			return FloatV(0)
		case types.UnsafePointer:
			return (*Val)(nil)
		}
		panic(inconclusive{"zero: unsupported basic type " + t.String()})
	case *types.Pointer:
		return (*Val)(nil)
	case *types.Array:
		a := make(ArrayV, t.Len())
		for i := range a {
			a[i] = zero(t.Elem())
		}
		return a
	case *types.Slice:
		return SliceV{Nil: true}
	case *types.Struct:
		s := make(StructV, t.NumFields())
		for i := range s {
			s[i] = zero(t.Field(i).Type())
		}
		return s
	case *types.Tuple:
		if t.Len() == 1 {
			return zero(t.At(0).Type())
		}
		s := make(Tuple, t.Len())
		for i := range s {
			s[i] = zero(t.At(i).Type())
		}
		return s
	case *types.Chan:
		return (*Val)(nil)
	case *types.Map:
		return (*MapV)(nil)
	case *types.Signature:
		return (*ssa.Function)(nil)
	case *types.Interface:
		return Iface{}
	case *types.TypeParam:
		panic(inconclusive{"zero of type parameter " + t.String()})
	}
	panic(inconclusive{fmt.Sprintf("zero: unexpected type %T %v", t, t)})
}

// copyVal copies value types (struct, array) deeply; reference types are shared.
func copyVal(v Val) Val {
	switch v := v.(type) {
	case StructV:
		n := make(StructV, len(v))
		for i, f := range v {
			n[i] = copyVal(f)
		}
		return n
	case ArrayV:
		n := make(ArrayV, len(v))
		for i, f := range v {
			n[i] = copyVal(f)
		}
		return n
	case Tuple:
		n := make(Tuple, len(v))
		for i, f := range v {
			n[i] = copyVal(f)
		}
		return n
	case Iface:
		return Iface{T: v.T, V: copyVal(v.V)}
	}
	return v
}

func constValue(c *ssa.Const) Val {
	if c.Value == nil {
		return zero(c.Type()) // nil or zero value of aggregate
	}
	t := c.Type()
	if tp, ok := t.(*types.TypeParam); ok {
		_ = tp
		panic(inconclusive{"constant of type parameter"})
	}
	if b, ok := t.Underlying().(*types.Basic); ok {
		if w, signed, ok := intWidth(b); ok {
			if w == 0 {
				return Bool(constant.BoolVal(c.Value))
			}
			if signed {
				return Const(w, uint64(c.Int64()))
			}
			return Const(w, c.Uint64())
		}
		switch b.Kind() {
		case types.String, types.UntypedString:
			if c.Value.Kind() == constant.String {
				return mkStr(constant.StringVal(c.Value))
			}
			return mkStr(string(rune(c.Int64())))
		case types.Float32, types.Float64, types.UntypedFloat:
			return FloatV(c.Float64())
		}
	}
	panic(inconclusive{fmt.Sprintf("constValue: unsupported constant %v of type %v", c, t)})
}

// equal returns the term "x == y" for comparable values of static type t.
func (ex *Exec) equal(x, y Val) *Term {
	switch x := x.(type) {
	case *Term:
		return Eq(x, y.(*Term))
	case Str:
		ys := y.(Str)
		if len(x) != len(ys) {
			return False
		}
		r := True
		for i := range x {
			r = And(r, Eq(x[i], ys[i]))
			if r.IsFalse() {
				return False
			}
		}
		return r
	case *Val:
		switch y := y.(type) {
		case *Val:
			return Bool(x == y)
		case *SymPtr:
			return False
		}
	case *SymPtr:
		return Bool(x == y)
	case StructV:
		ys := y.(StructV)
		r := True
		for i := range x {
			r = And(r, ex.equal(x[i], ys[i]))
		}
		return r
	case ArrayV:
		ys := y.(ArrayV)
		r := True
		for i := range x {
			r = And(r, ex.equal(x[i], ys[i]))
		}
		return r
	case Iface:
		yi := y.(Iface)
		if x.T == nil || yi.T == nil {
			return Bool(x.T == nil && yi.T == nil)
		}
		if !types.Identical(x.T, yi.T) {
			return False
		}
		if !types.Comparable(x.T) {
			ex.targetPanic("runtime error: comparing uncomparable type " + x.T.String())
		}
		return ex.equal(x.V, yi.V)
	case *MapV:
		if y, ok := y.(*MapV); ok {
			return Bool(x == y)
		}
	case *ssa.Function:
		if y, ok := y.(*ssa.Function); ok {
			return Bool(x == y) // only comparisons with nil are legal
		}
		return False
	case *Closure:
		if y, ok := y.(*ssa.Function); ok && y == nil {
			return False
		}
		if y, ok := y.(*Closure); ok {
			return Bool(x == y)
		}
		return False
	case *ssa.Builtin:
		return False
	case SliceV:
		ys := y.(SliceV)
		// only comparison with nil is legal
		if ys.Nil && len(ys.A) == 0 && cap(ys.A) == 0 {
			return Bool(x.Nil)
		}
		return Bool(ys.Nil == x.Nil && x.Nil)
	case FloatV:
		return Bool(x == y.(FloatV))
	case *Opaque:
		return Bool(x == y)
	}
	panic(inconclusive{fmt.Sprintf("equal: unsupported operand types %T %T", x, y)})
}

// show renders a value for diagnostics.
func show(v Val) string {
	switch v := v.(type) {
	case nil:
		return "<nil-val>"
	case *Term:
		if v.IsConst() {
			if v.W == 0 {
				return fmt.Sprint(v.Val == 1)
			}
			return fmt.Sprint(v.Val)
		}
		return v.String()
	case Str:
		return "\"" + v.show() + "\""
	case *Val:
		if v == nil {
			return "nil"
		}
		return fmt.Sprintf("&%p", v)
	case StructV:
		parts := make([]string, len(v))
		for i, f := range v {
			parts[i] = show(f)
		}
		return "{" + strings.Join(parts, " ") + "}"
	case ArrayV:
		return fmt.Sprintf("[%d]array", len(v))
	case SliceV:
		if v.Nil {
			return "[]nil"
		}
		if len(v.A) <= 16 {
			parts := make([]string, len(v.A))
			for i, f := range v.A {
				parts[i] = show(f)
			}
			return "[" + strings.Join(parts, " ") + "]"
		}
		return fmt.Sprintf("[len %d]", len(v.A))
	case Iface:
		if v.T == nil {
			return "nil-iface"
		}
		return fmt.Sprintf("iface(%s:%s)", v.T, show(v.V))
	case Tuple:
		parts := make([]string, len(v))
		for i, f := range v {
			parts[i] = show(f)
		}
		return "(" + strings.Join(parts, ", ") + ")"
	case *MapV:
		if v == nil {
			return "map-nil"
		}
		return fmt.Sprintf("map[%d]", len(v.Entries))
	case *ssa.Function:
		if v == nil {
			return "func-nil"
		}
		return v.String()
	case *Closure:
		return "closure:" + v.Fn.String()
	}
	return fmt.Sprintf("%T", v)
}
