// Package sym is gosym: a symbolic executor for Go SSA that discharges
// path-feasibility and assertion queries with an SMT solver.
package sym

import (
	"fmt"
	"strings"
)

// Op is a term operator.
type Op uint8

const (
	OpConst Op = iota
	OpVar
	OpNot
	OpAnd
	OpOr
	OpEq
	OpIte
	OpAdd
	OpSub
	OpMul
	OpUDiv
	OpSDiv
	OpURem
	OpSRem
	OpBAnd
	OpBOr
	OpBXor
	OpShl
	OpLShr
	OpAShr
	OpBNot
	OpNeg
	OpULt
	OpULe
	OpSLt
	OpSLe
	OpZExt
	OpSExt
	OpTrunc
)

var opSMT = map[Op]string{
	OpNot: "not", OpAnd: "and", OpOr: "or", OpEq: "=", OpIte: "ite",
	OpAdd: "bvadd", OpSub: "bvsub", OpMul: "bvmul", OpUDiv: "bvudiv", OpSDiv: "bvsdiv",
	OpURem: "bvurem", OpSRem: "bvsrem", OpBAnd: "bvand", OpBOr: "bvor", OpBXor: "bvxor",
	OpShl: "bvshl", OpLShr: "bvlshr", OpAShr: "bvashr", OpBNot: "bvnot", OpNeg: "bvneg",
	OpULt: "bvult", OpULe: "bvule", OpSLt: "bvslt", OpSLe: "bvsle",
}

// Term is an SMT term. W==0 means Bool, otherwise a bit-vector of width W.
type Term struct {
	Op   Op
	W    uint8
	Val  uint64 // OpConst
	Name string // OpVar
	A    []*Term
}

var (
	True       = &Term{Op: OpConst, W: 0, Val: 1}
	False      = &Term{Op: OpConst, W: 0, Val: 0}
	byteConsts [256]*Term
	smallInts  [257]*Term // 64-bit constants 0..256
)

func init() {
	for i := range byteConsts {
		byteConsts[i] = &Term{Op: OpConst, W: 8, Val: uint64(i)}
	}
	for i := range smallInts {
		smallInts[i] = &Term{Op: OpConst, W: 64, Val: uint64(i)}
	}
}

func mask(w uint8) uint64 {
	if w >= 64 {
		return ^uint64(0)
	}
	if w == 0 {
		return 1
	}
	return (uint64(1) << w) - 1
}

// Const makes a bit-vector constant.
func Const(w uint8, v uint64) *Term {
	if w == 0 {
		if v&1 == 1 {
			return True
		}
		return False
	}
	v &= mask(w)
	if w == 8 {
		return byteConsts[v]
	}
	if w == 64 && v <= 256 {
		return smallInts[v]
	}
	return &Term{Op: OpConst, W: w, Val: v}
}

func Bool(b bool) *Term {
	if b {
		return True
	}
	return False
}

func Var(name string, w uint8) *Term { return &Term{Op: OpVar, W: w, Name: name} }

func (t *Term) IsConst() bool { return t.Op == OpConst }
func (t *Term) IsTrue() bool  { return t == True || (t.Op == OpConst && t.W == 0 && t.Val == 1) }
func (t *Term) IsFalse() bool { return t == False || (t.Op == OpConst && t.W == 0 && t.Val == 0) }

// Signed returns the constant interpreted as signed of its width.
func (t *Term) Signed() int64 {
	return signExt(t.Val, t.W)
}

func signExt(v uint64, w uint8) int64 {
	if w >= 64 {
		return int64(v)
	}
	sh := 64 - uint(w)
	return int64(v<<sh) >> sh
}

func Not(a *Term) *Term {
	if a.IsConst() {
		return Bool(a.Val == 0)
	}
	if a.Op == OpNot {
		return a.A[0]
	}
	return &Term{Op: OpNot, A: []*Term{a}}
}

func And(a, b *Term) *Term {
	if a.IsConst() {
		if a.Val == 0 {
			return False
		}
		return b
	}
	if b.IsConst() {
		if b.Val == 0 {
			return False
		}
		return a
	}
	if a == b {
		return a
	}
	return &Term{Op: OpAnd, A: []*Term{a, b}}
}

func Or(a, b *Term) *Term {
	if a.IsConst() {
		if a.Val == 1 {
			return True
		}
		return b
	}
	if b.IsConst() {
		if b.Val == 1 {
			return True
		}
		return a
	}
	if a == b {
		return a
	}
	return &Term{Op: OpOr, A: []*Term{a, b}}
}

func AndAll(ts []*Term) *Term {
	r := True
	for _, t := range ts {
		r = And(r, t)
	}
	return r
}

func OrAll(ts []*Term) *Term {
	r := False
	for _, t := range ts {
		r = Or(r, t)
	}
	return r
}

// Eq builds equality between terms of the same sort.
func Eq(a, b *Term) *Term {
	if a.W != b.W {
		panic(fmt.Sprintf("Eq: width mismatch %d vs %d", a.W, b.W))
	}
	if a == b {
		return True
	}
	if a.IsConst() && b.IsConst() {
		return Bool(a.Val == b.Val)
	}
	if a.W == 0 {
		if a.IsConst() {
			if a.Val == 1 {
				return b
			}
			return Not(b)
		}
		if b.IsConst() {
			if b.Val == 1 {
				return a
			}
			return Not(a)
		}
	}
	// zext(x) == const  ==>  x == const' (or false)
	if b.IsConst() && a.Op == OpZExt {
		in := a.A[0]
		if b.Val > mask(in.W) {
			return False
		}
		return Eq(in, Const(in.W, b.Val))
	}
	if a.IsConst() && b.Op == OpZExt {
		return Eq(b, a)
	}
	// ite(c, k1, k2) == k  with constants
	if b.IsConst() && a.Op == OpIte && a.A[1].IsConst() && a.A[2].IsConst() {
		t1 := a.A[1].Val == b.Val
		t2 := a.A[2].Val == b.Val
		switch {
		case t1 && t2:
			return True
		case t1:
			return a.A[0]
		case t2:
			return Not(a.A[0])
		default:
			return False
		}
	}
	if a.IsConst() && b.Op == OpIte {
		return Eq(b, a)
	}
	return &Term{Op: OpEq, A: []*Term{a, b}}
}

func Ite(c, a, b *Term) *Term {
	if a.W != b.W {
		panic(fmt.Sprintf("Ite: width mismatch %d vs %d", a.W, b.W))
	}
	if c.IsConst() {
		if c.Val == 1 {
			return a
		}
		return b
	}
	if a == b {
		return a
	}
	if a.IsConst() && b.IsConst() && a.Val == b.Val {
		return a
	}
	if a.W == 0 {
		if a.IsConst() && b.IsConst() {
			if a.Val == 1 {
				return c
			}
			return Not(c)
		}
	}
	return &Term{Op: OpIte, W: a.W, A: []*Term{c, a, b}}
}

// Bin builds a bit-vector binary operation (both operands of width w).
func Bin(op Op, a, b *Term) *Term {
	if a.W != b.W {
		panic(fmt.Sprintf("Bin %v: width mismatch %d vs %d", op, a.W, b.W))
	}
	w := a.W
	if a.IsConst() && b.IsConst() {
		if v, ok := foldBin(op, w, a.Val, b.Val); ok {
			return Const(w, v)
		}
	}
	switch op {
	case OpAdd:
		if a.IsConst() && a.Val == 0 {
			return b
		}
		if b.IsConst() && b.Val == 0 {
			return a
		}
	case OpSub:
		if b.IsConst() && b.Val == 0 {
			return a
		}
	case OpBAnd:
		if b.IsConst() && b.Val == mask(w) {
			return a
		}
		if a.IsConst() && a.Val == mask(w) {
			return b
		}
	case OpBOr, OpBXor:
		if b.IsConst() && b.Val == 0 {
			return a
		}
		if a.IsConst() && a.Val == 0 {
			return b
		}
	case OpShl, OpLShr, OpAShr:
		if b.IsConst() && b.Val == 0 {
			return a
		}
	case OpMul:
		if b.IsConst() && b.Val == 1 {
			return a
		}
		if a.IsConst() && a.Val == 1 {
			return b
		}
	}
	return &Term{Op: op, W: w, A: []*Term{a, b}}
}

func foldBin(op Op, w uint8, x, y uint64) (uint64, bool) {
	m := mask(w)
	switch op {
	case OpAdd:
		return (x + y) & m, true
	case OpSub:
		return (x - y) & m, true
	case OpMul:
		return (x * y) & m, true
	case OpUDiv:
		if y == 0 {
			return m, true // SMT-LIB semantics
		}
		return x / y, true
	case OpURem:
		if y == 0 {
			return x, true
		}
		return x % y, true
	case OpSDiv:
		if y == 0 {
			if signExt(x, w) < 0 {
				return 1, true
			}
			return m, true
		}
		sx, sy := signExt(x, w), signExt(y, w)
		if sy == -1 {
			return uint64(-sx) & m, true
		}
		return uint64(sx/sy) & m, true
	case OpSRem:
		if y == 0 {
			return x, true
		}
		sx, sy := signExt(x, w), signExt(y, w)
		if sy == -1 {
			return 0, true
		}
		return uint64(sx%sy) & m, true
	case OpBAnd:
		return x & y, true
	case OpBOr:
		return x | y, true
	case OpBXor:
		return x ^ y, true
	case OpShl:
		if y >= uint64(w) {
			return 0, true
		}
		return (x << y) & m, true
	case OpLShr:
		if y >= uint64(w) {
			return 0, true
		}
		return x >> y, true
	case OpAShr:
		sx := signExt(x, w)
		if y >= uint64(w) {
			if sx < 0 {
				return m, true
			}
			return 0, true
		}
		return uint64(sx>>y) & m, true
	}
	return 0, false
}

// Cmp builds a comparison (ULt, ULe, SLt, SLe) yielding Bool.
func Cmp(op Op, a, b *Term) *Term {
	if a.W != b.W {
		panic(fmt.Sprintf("Cmp: width mismatch %d vs %d", a.W, b.W))
	}
	if a.IsConst() && b.IsConst() {
		return Bool(foldCmp(op, a.W, a.Val, b.Val))
	}
	if a == b {
		return Bool(op == OpULe || op == OpSLe)
	}
	// comparisons of zero-extended values with constants narrow down
	if op == OpULt || op == OpULe {
		if a.Op == OpZExt && b.IsConst() {
			in := a.A[0]
			if b.Val > mask(in.W) {
				return True
			}
			return Cmp(op, in, Const(in.W, b.Val))
		}
		if b.Op == OpZExt && a.IsConst() {
			in := b.A[0]
			if a.Val > mask(in.W) {
				return False
			}
			return Cmp(op, Const(in.W, a.Val), in)
		}
	}
	if (op == OpSLt || op == OpSLe) && a.W > 8 {
		// zext values are non-negative: signed compare == unsigned compare when constant is non-negative
		if a.Op == OpZExt && b.IsConst() && signExt(b.Val, b.W) >= 0 {
			if op == OpSLt {
				return Cmp(OpULt, a, b)
			}
			return Cmp(OpULe, a, b)
		}
		if b.Op == OpZExt && a.IsConst() && signExt(a.Val, a.W) >= 0 {
			if op == OpSLt {
				return Cmp(OpULt, a, b)
			}
			return Cmp(OpULe, a, b)
		}
	}
	return &Term{Op: op, A: []*Term{a, b}}
}

func foldCmp(op Op, w uint8, x, y uint64) bool {
	switch op {
	case OpULt:
		return x < y
	case OpULe:
		return x <= y
	case OpSLt:
		return signExt(x, w) < signExt(y, w)
	case OpSLe:
		return signExt(x, w) <= signExt(y, w)
	}
	panic("foldCmp")
}

func Un(op Op, a *Term) *Term {
	if a.IsConst() {
		switch op {
		case OpBNot:
			return Const(a.W, ^a.Val)
		case OpNeg:
			return Const(a.W, -a.Val)
		}
	}
	return &Term{Op: op, W: a.W, A: []*Term{a}}
}

// Resize converts a bit-vector to width w, sign- or zero-extending.
func Resize(a *Term, w uint8, signed bool) *Term {
	if a.W == w {
		return a
	}
	if a.W == 0 {
		panic("Resize of Bool")
	}
	if a.IsConst() {
		if w < a.W {
			return Const(w, a.Val)
		}
		if signed {
			return Const(w, uint64(signExt(a.Val, a.W)))
		}
		return Const(w, a.Val)
	}
	if w < a.W {
		// trunc(zext(x)) simplifications
		if (a.Op == OpZExt || a.Op == OpSExt) && a.A[0].W == w {
			return a.A[0]
		}
		if (a.Op == OpZExt || a.Op == OpSExt) && a.A[0].W < w {
			return &Term{Op: a.Op, W: w, A: []*Term{a.A[0]}}
		}
		return &Term{Op: OpTrunc, W: w, A: []*Term{a}}
	}
	if signed {
		if a.Op == OpZExt {
			return &Term{Op: OpZExt, W: w, A: []*Term{a.A[0]}}
		}
		return &Term{Op: OpSExt, W: w, A: []*Term{a}}
	}
	if a.Op == OpZExt {
		return &Term{Op: OpZExt, W: w, A: []*Term{a.A[0]}}
	}
	return &Term{Op: OpZExt, W: w, A: []*Term{a}}
}

// Eval evaluates t under model (variables absent from the model are 0).
func Eval(t *Term, model map[string]uint64) uint64 {
	memo := map[*Term]uint64{}
	return eval(t, model, memo)
}

func eval(t *Term, model map[string]uint64, memo map[*Term]uint64) uint64 {
	switch t.Op {
	case OpConst:
		return t.Val
	case OpVar:
		return model[t.Name] & mask(t.W)
	}
	if v, ok := memo[t]; ok {
		return v
	}
	var r uint64
	switch t.Op {
	case OpNot:
		r = 1 - eval(t.A[0], model, memo)
	case OpAnd:
		r = eval(t.A[0], model, memo)
		if r == 1 {
			r = eval(t.A[1], model, memo)
		}
	case OpOr:
		r = eval(t.A[0], model, memo)
		if r == 0 {
			r = eval(t.A[1], model, memo)
		}
	case OpEq:
		if eval(t.A[0], model, memo) == eval(t.A[1], model, memo) {
			r = 1
		}
	case OpIte:
		if eval(t.A[0], model, memo) == 1 {
			r = eval(t.A[1], model, memo)
		} else {
			r = eval(t.A[2], model, memo)
		}
	case OpULt, OpULe, OpSLt, OpSLe:
		if foldCmp(t.Op, t.A[0].W, eval(t.A[0], model, memo), eval(t.A[1], model, memo)) {
			r = 1
		}
	case OpBNot:
		r = ^eval(t.A[0], model, memo) & mask(t.W)
	case OpNeg:
		r = -eval(t.A[0], model, memo) & mask(t.W)
	case OpZExt:
		r = eval(t.A[0], model, memo)
	case OpSExt:
		r = uint64(signExt(eval(t.A[0], model, memo), t.A[0].W)) & mask(t.W)
	case OpTrunc:
		r = eval(t.A[0], model, memo) & mask(t.W)
	default:
		v, ok := foldBin(t.Op, t.W, eval(t.A[0], model, memo), eval(t.A[1], model, memo))
		if !ok {
			panic(fmt.Sprintf("eval: op %d", t.Op))
		}
		r = v
	}
	memo[t] = r
	return r
}

// Vars collects the variable names of t into set.
func Vars(t *Term, set map[string]uint8, seen map[*Term]bool) {
	if seen[t] {
		return
	}
	seen[t] = true
	if t.Op == OpVar {
		set[t.Name] = t.W
		return
	}
	for _, a := range t.A {
		Vars(a, set, seen)
	}
}

func sortSMT(w uint8) string {
	if w == 0 {
		return "Bool"
	}
	return fmt.Sprintf("(_ BitVec %d)", w)
}

func constSMT(t *Term) string {
	if t.W == 0 {
		if t.Val == 1 {
			return "true"
		}
		return "false"
	}
	if t.W%4 == 0 {
		return fmt.Sprintf("#x%0*x", int(t.W/4), t.Val)
	}
	return fmt.Sprintf("(_ bv%d %d)", t.Val, t.W)
}

func smtName(n string) string {
	return "|" + strings.ReplaceAll(n, "|", "_") + "|"
}

// String renders a term for debugging (not necessarily SMT-LIB).
func (t *Term) String() string {
	var sb strings.Builder
	t.write(&sb, 0)
	return sb.String()
}

func (t *Term) write(sb *strings.Builder, depth int) {
	switch t.Op {
	case OpConst:
		sb.WriteString(constSMT(t))
		return
	case OpVar:
		sb.WriteString(t.Name)
		return
	}
	if depth > 6 {
		sb.WriteString("...")
		return
	}
	name := opSMT[t.Op]
	switch t.Op {
	case OpZExt:
		name = fmt.Sprintf("zext%d", t.W)
	case OpSExt:
		name = fmt.Sprintf("sext%d", t.W)
	case OpTrunc:
		name = fmt.Sprintf("trunc%d", t.W)
	}
	sb.WriteString("(" + name)
	for _, a := range t.A {
		sb.WriteByte(' ')
		a.write(sb, depth+1)
	}
	sb.WriteByte(')')
}
