package sym

import (
	"fmt"
	"go/token"
	"go/types"
	"os"
	"strings"

	"golang.org/x/tools/go/ssa"
)

// Control-flow signals implemented as Go panics.

// targetPanic is a panic of the interpreted program (explicit or runtime fault).
type targetPanic struct {
	v     Val    // the value given to panic(): an Iface
	fault string // non-empty for runtime faults raised by the engine
	site  string
}

// inconclusive aborts the path: the engine cannot decide (unsupported feature, solver unknown...).
type inconclusive struct{ msg string }

// pathEnd aborts the path silently (infeasible assumption).
type pathEnd struct{ why string }

// budgetExceeded: step or call-depth budget exhausted (candidate hang / unbounded recursion).
type budgetExceeded struct{ what string }

type deferred struct {
	fn   Val
	args []Val
	tail *deferred
}

type frame struct {
	ex               *Exec
	caller           *frame
	fn               *ssa.Function
	block, prevBlock *ssa.BasicBlock
	env              map[ssa.Value]Val
	locals           []Val
	defers           *deferred
	result           Val
	panicking        bool
	panicVal         interface{}
	curInstr         ssa.Instruction
}

func (fr *frame) get(key ssa.Value) Val {
	switch key := key.(type) {
	case nil:
		return nil
	case *ssa.Function:
		return key
	case *ssa.Builtin:
		return key
	case *ssa.Const:
		return constValue(key)
	case *ssa.Global:
		return fr.ex.global(key)
	}
	if r, ok := fr.env[key]; ok {
		return r
	}
	panic(inconclusive{fmt.Sprintf("get: no value for %T %v in %s", key, key.Name(), fr.fn)})
}

func (ex *Exec) global(g *ssa.Global) *Val {
	if g.Pkg != nil && ex.eng.sharedInit(g.Pkg.Pkg.Path()) {
		return ex.eng.sharedGlobal(g)
	}
	if g.Pkg != nil && g.Pkg.Pkg.Path() == "os" {
		switch g.Name() {
		case "ErrNotExist", "ErrExist", "ErrPermission", "ErrInvalid", "ErrClosed":
			// os re-exports io/fs's error values
			if p := ex.eng.Prog.ImportedPackage("io/fs"); p != nil {
				if fg, ok := p.Members[g.Name()].(*ssa.Global); ok {
					return ex.eng.sharedGlobal(fg)
				}
			}
		}
	}
	if r, ok := ex.globals[g]; ok {
		return r
	}
	// lazily materialise; package must have been initialised (or be whitelisted as zero-init)
	if g.Pkg != nil && !ex.initDone[g.Pkg] {
		if !ex.eng.allowZeroGlobal(g) {
			panic(inconclusive{"read of global " + g.String() + " of a package whose init was not run"})
		}
	}
	cell := new(Val)
	*cell = zero(deref(g.Type()))
	ex.globals[g] = cell
	return cell
}

func deref(t types.Type) types.Type {
	if p, ok := t.Underlying().(*types.Pointer); ok {
		return p.Elem()
	}
	panic(inconclusive{"deref of non-pointer type " + t.String()})
}

func (fr *frame) runDefer(d *deferred) {
	var ok bool
	defer func() {
		if !ok {
			r := recover()
			switch r.(type) {
			case targetPanic:
				fr.panicking = true
				fr.panicVal = r
			default:
				panic(r)
			}
		}
	}()
	fr.ex.call(fr, d.fn, d.args)
	ok = true
}

func (fr *frame) runDefers() {
	for d := fr.defers; d != nil; d = d.tail {
		fr.runDefer(d)
	}
	fr.defers = nil
	if fr.panicking {
		panic(fr.panicVal)
	}
}

func (ex *Exec) site(fr *frame) string {
	if fr == nil || fr.curInstr == nil {
		return "?"
	}
	pos := fr.curInstr.Pos()
	p := ex.eng.Prog.Fset.Position(pos)
	// find a frame with position info
	if !pos.IsValid() {
		return fr.fn.String()
	}
	return fmt.Sprintf("%s (%s:%d)", fr.fn.String(), shortFile(p.Filename), p.Line)
}

func shortFile(f string) string {
	if i := strings.Index(f, "/repo/"); i >= 0 {
		return f[i+6:]
	}
	if i := strings.LastIndex(f, "/pkg/mod/"); i >= 0 {
		return f[i+9:]
	}
	if i := strings.Index(f, "/src/"); i >= 0 {
		return f[i+5:]
	}
	return f
}

// targetPanic raises a run-time fault of the interpreted program.
func (ex *Exec) targetPanic(msg string) {
	site := ex.site(ex.cur)
	ex.faults = append(ex.faults, Fault{Msg: msg, Site: site, Stack: ex.stack()})
	if traceQ {
		fmt.Fprintf(os.Stderr, "FAULT %s\n  %s\n", msg, strings.Join(ex.stack(), "\n  "))
	}
	v := Iface{T: ex.eng.runtimeErrorString, V: mkStr(strings.TrimPrefix(msg, "runtime error: "))}
	panic(targetPanic{v: v, fault: msg, site: site})
}

func (ex *Exec) stack() []string {
	var s []string
	for fr := ex.cur; fr != nil; fr = fr.caller {
		s = append(s, ex.site(fr))
		if len(s) > 12 {
			break
		}
	}
	return s
}

func (ex *Exec) visitInstr(fr *frame, instr ssa.Instruction) (ret bool) {
	fr.curInstr = instr
	ex.steps++
	if ex.steps > ex.eng.Cfg.StepBudget {
		panic(budgetExceeded{fmt.Sprintf("step budget %d exceeded", ex.eng.Cfg.StepBudget)})
	}
	switch instr := instr.(type) {
	case *ssa.DebugRef:
	case *ssa.UnOp:
		fr.env[instr] = ex.unop(instr, fr.get(instr.X))
	case *ssa.BinOp:
		fr.env[instr] = ex.binop(instr.Op, instr.X.Type(), fr.get(instr.X), fr.get(instr.Y))
	case *ssa.Call:
		fn, args := ex.prepareCall(fr, &instr.Call)
		fr.env[instr] = ex.call(fr, fn, args)
		fr.curInstr = instr
	case *ssa.ChangeInterface:
		fr.env[instr] = fr.get(instr.X)
	case *ssa.ChangeType:
		fr.env[instr] = fr.get(instr.X)
	case *ssa.Convert:
		fr.env[instr] = ex.conv(instr.Type(), instr.X.Type(), fr.get(instr.X))
	case *ssa.SliceToArrayPointer:
		panic(inconclusive{"SliceToArrayPointer unsupported"})
	case *ssa.MakeInterface:
		fr.env[instr] = Iface{T: instr.X.Type(), V: fr.get(instr.X)}
	case *ssa.Extract:
		fr.env[instr] = fr.get(instr.Tuple).(Tuple)[instr.Index]
	case *ssa.Slice:
		fr.env[instr] = ex.slice(instr, fr.get(instr.X), idx64opt(fr, instr.Low), idx64opt(fr, instr.High), idx64opt(fr, instr.Max))
	case *ssa.Return:
		switch len(instr.Results) {
		case 0:
		case 1:
			fr.result = fr.get(instr.Results[0])
		default:
			res := make(Tuple, len(instr.Results))
			for i, r := range instr.Results {
				res[i] = fr.get(r)
			}
			fr.result = res
		}
		fr.block = nil
		return true
	case *ssa.RunDefers:
		fr.runDefers()
	case *ssa.Panic:
		v := fr.get(instr.X)
		panic(targetPanic{v: v, site: ex.site(fr)})
	case *ssa.Store:
		ex.store(fr.get(instr.Addr), fr.get(instr.Val))
	case *ssa.If:
		c := fr.get(instr.Cond).(*Term)
		succ := 1
		if ex.branch(c) {
			succ = 0
		}
		fr.prevBlock, fr.block = fr.block, fr.block.Succs[succ]
	case *ssa.Jump:
		fr.prevBlock, fr.block = fr.block, fr.block.Succs[0]
	case *ssa.Defer:
		fn, args := ex.prepareCall(fr, &instr.Call)
		if instr.DeferStack != nil {
			panic(inconclusive{"defer with explicit DeferStack unsupported"})
		}
		fr.defers = &deferred{fn: fn, args: args, tail: fr.defers}
	case *ssa.Go:
		panic(inconclusive{"go statement unsupported"})
	case *ssa.MakeChan, *ssa.Send, *ssa.Select:
		panic(inconclusive{"channels unsupported"})
	case *ssa.Alloc:
		var addr *Val
		if instr.Heap {
			addr = new(Val)
			fr.env[instr] = addr
		} else {
			addr = fr.env[instr].(*Val)
			assignInPlace(addr, zero(deref(instr.Type())))
			break
		}
		*addr = zero(deref(instr.Type()))
	case *ssa.MakeSlice:
		n := ex.concreteInt(idx64(fr, instr.Len), "make len")
		c := ex.concreteInt(idx64(fr, instr.Cap), "make cap")
		if n < 0 || c < n || c > 1<<24 {
			ex.targetPanic("runtime error: makeslice: len out of range")
		}
		tElt := instr.Type().Underlying().(*types.Slice).Elem()
		cells := make([]Val, c)
		for i := range cells {
			cells[i] = zero(tElt)
		}
		fr.env[instr] = SliceV{A: cells[:n]}
	case *ssa.MakeMap:
		fr.env[instr] = &MapV{KeyT: instr.Type().Underlying().(*types.Map).Key()}
	case *ssa.Range:
		fr.env[instr] = ex.rangeIter(fr.get(instr.X))
	case *ssa.Next:
		fr.env[instr] = ex.next(instr, fr.get(instr.Iter))
	case *ssa.FieldAddr:
		p := fr.get(instr.X)
		pp, ok := p.(*Val)
		if !ok {
			panic(inconclusive{fmt.Sprintf("FieldAddr on %T", p)})
		}
		if pp == nil {
			ex.targetPanic("runtime error: invalid memory address or nil pointer dereference")
		}
		fr.env[instr] = &(*pp).(StructV)[instr.Field]
	case *ssa.Field:
		fr.env[instr] = fr.get(instr.X).(StructV)[instr.Field]
	case *ssa.IndexAddr:
		fr.env[instr] = ex.indexAddr(fr.get(instr.X), idx64(fr, instr.Index))
	case *ssa.Index:
		fr.env[instr] = ex.index(fr.get(instr.X), idx64(fr, instr.Index))
	case *ssa.Lookup:
		if _, isMap := instr.X.Type().Underlying().(*types.Map); isMap {
			fr.env[instr] = ex.lookup(instr, fr.get(instr.X), fr.get(instr.Index))
		} else {
			fr.env[instr] = ex.lookup(instr, fr.get(instr.X), idx64(fr, instr.Index))
		}
	case *ssa.MapUpdate:
		m := fr.get(instr.Map).(*MapV)
		if m == nil {
			ex.targetPanic("assignment to entry in nil map")
		}
		ex.mapUpdate(m, fr.get(instr.Key), fr.get(instr.Value))
	case *ssa.TypeAssert:
		fr.env[instr] = ex.typeAssert(instr, fr.get(instr.X).(Iface))
	case *ssa.MakeClosure:
		bindings := make([]Val, len(instr.Bindings))
		for i, b := range instr.Bindings {
			bindings[i] = fr.get(b)
		}
		fr.env[instr] = &Closure{Fn: instr.Fn.(*ssa.Function), Env: bindings}
	case *ssa.Phi:
		panic("unreachable: phi")
	default:
		panic(inconclusive{fmt.Sprintf("unexpected instruction %T", instr)})
	}
	return false
}

func (ex *Exec) prepareCall(fr *frame, call *ssa.CallCommon) (fn Val, args []Val) {
	v := fr.get(call.Value)
	if call.Method == nil {
		fn = v
	} else {
		recv := v.(Iface)
		if recv.T == nil {
			ex.targetPanic("runtime error: invalid memory address or nil pointer dereference")
		}
		f := ex.eng.lookupMethod(recv.T, call.Method.Pkg(), call.Method.Name())
		if f == nil {
			if in := ex.eng.opaqueMethod(recv, call.Method.Name()); in != nil {
				fn = in
			} else {
				panic(inconclusive{fmt.Sprintf("no method %s for dynamic type %v", call.Method.Name(), recv.T)})
			}
		} else {
			fn = f
		}
		args = append(args, recv.V)
	}
	for _, arg := range call.Args {
		args = append(args, fr.get(arg))
	}
	return
}

// Intrinsic is a function implemented by the engine.
type Intrinsic func(ex *Exec, fr *frame, args []Val) Val

func (ex *Exec) call(caller *frame, fn Val, args []Val) Val {
	switch fn := fn.(type) {
	case *ssa.Function:
		if fn == nil {
			ex.targetPanic("runtime error: invalid memory address or nil pointer dereference")
		}
		return ex.callSSA(caller, fn, args, nil)
	case *Closure:
		return ex.callSSA(caller, fn.Fn, args, fn.Env)
	case *ssa.Builtin:
		return ex.callBuiltin(caller, fn, args)
	case Intrinsic:
		return fn(ex, caller, args)
	}
	panic(inconclusive{fmt.Sprintf("cannot call %T", fn)})
}

func (ex *Exec) callSSA(caller *frame, fn *ssa.Function, args []Val, env []Val) Val {
	if fn.Parent() == nil {
		// replacements (stubs), intrinsics
		if rep, ok := ex.eng.stubs[fn]; ok {
			ex.noteFunc(fn, "stubbed")
			fn = rep
		} else if in := ex.eng.intrinsicFor(fn); in != nil {
			ex.noteFunc(fn, "intrinsic")
			return in(ex, caller, args)
		}
	}
	if fn.Blocks == nil {
		panic(inconclusive{"no code for function: " + fn.String()})
	}
	if fn.TypeParams().Len() > 0 && len(fn.TypeArgs()) == 0 {
		panic(inconclusive{"uninstantiated generic function " + fn.String()})
	}
	ex.noteFunc(fn, "")
	ex.depth++
	if ex.depth > ex.eng.Cfg.DepthBudget {
		panic(budgetExceeded{fmt.Sprintf("call depth budget %d exceeded in %s", ex.eng.Cfg.DepthBudget, fn)})
	}
	fr := &frame{ex: ex, caller: caller, fn: fn}
	fr.env = make(map[ssa.Value]Val, 16)
	fr.block = fn.Blocks[0]
	fr.locals = make([]Val, len(fn.Locals))
	for i, l := range fn.Locals {
		fr.locals[i] = zero(deref(l.Type()))
		fr.env[l] = &fr.locals[i]
	}
	if len(args) != len(fn.Params) {
		panic(inconclusive{fmt.Sprintf("call of %s with %d args, want %d", fn, len(args), len(fn.Params))})
	}
	for i, p := range fn.Params {
		fr.env[p] = args[i]
	}
	for i, fv := range fn.FreeVars {
		fr.env[fv] = env[i]
	}
	saved := ex.cur
	ex.cur = fr
	for fr.block != nil {
		ex.runFrame(fr)
	}
	ex.cur = saved
	ex.depth--
	return fr.result
}

func (ex *Exec) runFrame(fr *frame) {
	defer func() {
		if fr.block == nil {
			return // normal return
		}
		r := recover()
		tp, ok := r.(targetPanic)
		if !ok {
			panic(r) // engine signal: propagate without running target defers
		}
		ex.cur = fr
		fr.panicking = true
		fr.panicVal = tp
		fr.runDefers() // re-panics if still panicking
		// recovered
		ex.depth = fr.depthAt()
		fr.block = fr.fn.Recover
		if fr.block == nil {
			// no named results: return zero values
			fr.result = zero(fr.fn.Signature.Results())
			if fr.fn.Signature.Results().Len() == 0 {
				fr.result = nil
			}
		}
	}()
	for {
		nonPhis := ex.executePhis(fr)
		for _, instr := range nonPhis {
			if ex.visitInstr(fr, instr) {
				return
			}
		}
	}
}

// depthAt recomputes call depth after a recovered panic.
func (fr *frame) depthAt() int {
	d := 0
	for f := fr; f != nil; f = f.caller {
		d++
	}
	return d
}

func (ex *Exec) executePhis(fr *frame) []ssa.Instruction {
	firstNonPhi := -1
	for i, instr := range fr.block.Instrs {
		if _, ok := instr.(*ssa.Phi); !ok {
			firstNonPhi = i
			break
		}
	}
	nonPhis := fr.block.Instrs[firstNonPhi:]
	if firstNonPhi > 0 {
		phis := fr.block.Instrs[:firstNonPhi]
		predIndex := -1
		for i, p := range fr.block.Preds {
			if p == fr.prevBlock {
				predIndex = i
				break
			}
		}
		tmp := make([]Val, len(phis))
		for i, phi := range phis {
			tmp[i] = fr.get(phi.(*ssa.Phi).Edges[predIndex])
		}
		for i, phi := range phis {
			fr.env[phi.(*ssa.Phi)] = tmp[i]
		}
	}
	return nonPhis
}

func (ex *Exec) doRecover(caller *frame) Val {
	if caller != nil && !caller.panicking && caller.caller != nil && caller.caller.panicking {
		caller.caller.panicking = false
		p := caller.caller.panicVal.(targetPanic)
		caller.caller.panicVal = nil
		if p.fault != "" {
			ex.recovered = append(ex.recovered, Fault{Msg: p.fault, Site: p.site})
		}
		return p.v
	}
	return Iface{}
}

var _ = token.NoPos

// idx64 widens an index operand to 64 bits according to its static type.
func idx64(fr *frame, v ssa.Value) Val {
	t := fr.get(v).(*Term)
	if t.W == 64 {
		return t
	}
	_, signed, _ := intWidth(v.Type())
	return Resize(t, 64, signed)
}

func idx64opt(fr *frame, v ssa.Value) Val {
	if v == nil {
		return nil
	}
	return idx64(fr, v)
}
