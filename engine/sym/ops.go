package sym

import (
	"fmt"
	"go/token"
	"go/types"
	"unicode/utf8"

	"golang.org/x/tools/go/ssa"
)

// concreteInt turns an integer value into a concrete int64, forking over the
// feasible values when it is symbolic (case split).
func (ex *Exec) concreteInt(v Val, why string) int64 {
	t := v.(*Term)
	if t.IsConst() {
		return signExt(t.Val, t.W)
	}
	u := ex.concretize(t, why)
	return signExt(u, t.W)
}

func (ex *Exec) load(p Val) Val {
	switch p := p.(type) {
	case *Val:
		if p == nil {
			ex.targetPanic("runtime error: invalid memory address or nil pointer dereference")
		}
		if ex.memHook != nil {
			ex.memHook(p, false)
		}
		return copyVal(*p)
	case *SymPtr:
		// constant table read at symbolic index: ite chain
		n := len(p.Arr)
		idx := p.Idx
		inb := Cmp(OpULt, idx, Const(idx.W, uint64(n)))
		if !ex.branch(inb) {
			ex.targetPanic(fmt.Sprintf("runtime error: index out of range [?] with length %d", n))
		}
		// runs of equal table entries become range tests
		type run struct {
			lo, hi int
			val    *Term
		}
		var runs []run
		for i := 0; i < n; i++ {
			e := p.Arr[i].(*Term)
			if k := len(runs); k > 0 && runs[k-1].val.Val == e.Val {
				runs[k-1].hi = i
			} else {
				runs = append(runs, run{i, i, e})
			}
		}
		r := runs[len(runs)-1].val
		for k := len(runs) - 2; k >= 0; k-- {
			var in *Term
			if runs[k].lo == runs[k].hi {
				in = Eq(idx, Const(idx.W, uint64(runs[k].lo)))
			} else {
				in = And(Cmp(OpULe, Const(idx.W, uint64(runs[k].lo)), idx), Cmp(OpULe, idx, Const(idx.W, uint64(runs[k].hi))))
			}
			r = Ite(in, runs[k].val, r)
		}
		return r
	}
	panic(inconclusive{fmt.Sprintf("load through %T", p)})
}

func (ex *Exec) store(p Val, v Val) {
	switch p := p.(type) {
	case *Val:
		if p == nil {
			ex.targetPanic("runtime error: invalid memory address or nil pointer dereference")
		}
		if ex.memHook != nil {
			ex.memHook(p, true)
		}
		assignInPlace(p, v)
		return
	case *SymPtr:
		i := ex.concretize(p.Idx, "store index")
		if i >= uint64(len(p.Arr)) {
			ex.targetPanic(fmt.Sprintf("runtime error: index out of range [%d] with length %d", i, len(p.Arr)))
		}
		p.Arr[i] = copyVal(v)
		return
	}
	panic(inconclusive{fmt.Sprintf("store through %T", p)})
}

func (ex *Exec) unop(instr *ssa.UnOp, x Val) Val {
	switch instr.Op {
	case token.MUL: // load
		return ex.load(x)
	case token.NOT:
		return Not(x.(*Term))
	case token.SUB:
		switch x := x.(type) {
		case *Term:
			return Un(OpNeg, x)
		case FloatV:
			return -x
		}
	case token.XOR:
		return Un(OpBNot, x.(*Term))
	case token.ARROW:
		panic(inconclusive{"channel receive unsupported"})
	}
	panic(inconclusive{fmt.Sprintf("unop %v on %T", instr.Op, x)})
}

func (ex *Exec) binop(op token.Token, t types.Type, x, y Val) Val {
	switch op {
	case token.EQL:
		return ex.equal(x, y)
	case token.NEQ:
		return Not(ex.equal(x, y))
	}
	switch xv := x.(type) {
	case *Term:
		yv := y.(*Term)
		w, signed, ok := intWidth(t)
		if !ok {
			panic(inconclusive{"binop on non-integer type " + t.String()})
		}
		_ = w
		switch op {
		case token.ADD:
			return Bin(OpAdd, xv, yv)
		case token.SUB:
			return Bin(OpSub, xv, yv)
		case token.MUL:
			return Bin(OpMul, xv, yv)
		case token.QUO, token.REM:
			z := Eq(yv, Const(yv.W, 0))
			if ex.branch(z) {
				ex.targetPanic("runtime error: integer divide by zero")
			}
			if op == token.QUO {
				if signed {
					return Bin(OpSDiv, xv, yv)
				}
				return Bin(OpUDiv, xv, yv)
			}
			if signed {
				return Bin(OpSRem, xv, yv)
			}
			return Bin(OpURem, xv, yv)
		case token.AND:
			if xv.W == 0 {
				return And(xv, yv)
			}
			return Bin(OpBAnd, xv, yv)
		case token.OR:
			if xv.W == 0 {
				return Or(xv, yv)
			}
			return Bin(OpBOr, xv, yv)
		case token.XOR:
			return Bin(OpBXor, xv, yv)
		case token.AND_NOT:
			return Bin(OpBAnd, xv, Un(OpBNot, yv))
		case token.SHL, token.SHR:
			// shift count: y may have a different width / signedness
			cnt := yv
			if cnt.W != xv.W {
				if cnt.W > xv.W {
					// saturate
					big := Cmp(OpULe, Const(cnt.W, uint64(xv.W)), cnt)
					cnt = Ite(big, Const(xv.W, uint64(xv.W)), Resize(cnt, xv.W, false))
				} else {
					cnt = Resize(cnt, xv.W, false)
				}
			}
			if op == token.SHL {
				return Bin(OpShl, xv, cnt)
			}
			if signed {
				return Bin(OpAShr, xv, cnt)
			}
			return Bin(OpLShr, xv, cnt)
		case token.LSS:
			if signed {
				return Cmp(OpSLt, xv, yv)
			}
			return Cmp(OpULt, xv, yv)
		case token.LEQ:
			if signed {
				return Cmp(OpSLe, xv, yv)
			}
			return Cmp(OpULe, xv, yv)
		case token.GTR:
			if signed {
				return Cmp(OpSLt, yv, xv)
			}
			return Cmp(OpULt, yv, xv)
		case token.GEQ:
			if signed {
				return Cmp(OpSLe, yv, xv)
			}
			return Cmp(OpULe, yv, xv)
		}
	case Str:
		ys := y.(Str)
		switch op {
		case token.ADD:
			r := make(Str, 0, len(xv)+len(ys))
			r = append(r, xv...)
			r = append(r, ys...)
			return r
		case token.LSS, token.LEQ, token.GTR, token.GEQ:
			return ex.strCompare(op, xv, ys)
		}
	case FloatV:
		yf := y.(FloatV)
		switch op {
		case token.ADD:
			return xv + yf
		case token.SUB:
			return xv - yf
		case token.MUL:
			return xv * yf
		case token.QUO:
			return xv / yf
		case token.LSS:
			return Bool(xv < yf)
		case token.LEQ:
			return Bool(xv <= yf)
		case token.GTR:
			return Bool(xv > yf)
		case token.GEQ:
			return Bool(xv >= yf)
		}
	}
	panic(inconclusive{fmt.Sprintf("binop %v on %T,%T", op, x, y)})
}

// strCompare builds lexicographic comparison of byte strings.
func (ex *Exec) strCompare(op token.Token, x, y Str) *Term {
	// lt(x,y): exists first difference position
	n := len(x)
	if len(y) < n {
		n = len(y)
	}
	// result if all common bytes equal
	var tail *Term
	switch op {
	case token.LSS:
		tail = Bool(len(x) < len(y))
	case token.LEQ:
		tail = Bool(len(x) <= len(y))
	case token.GTR:
		tail = Bool(len(x) > len(y))
	case token.GEQ:
		tail = Bool(len(x) >= len(y))
	}
	r := tail
	for i := n - 1; i >= 0; i-- {
		var lt *Term
		switch op {
		case token.LSS, token.LEQ:
			lt = Cmp(OpULt, x[i], y[i])
		default:
			lt = Cmp(OpULt, y[i], x[i])
		}
		r = Ite(Eq(x[i], y[i]), r, lt)
	}
	return r
}

func (ex *Exec) conv(tDst, tSrc types.Type, x Val) Val {
	ut := tDst.Underlying()
	us := tSrc.Underlying()
	switch ut := ut.(type) {
	case *types.Pointer:
		// unsafe.Pointer -> *T
		return x
	case *types.Slice:
		// string -> []byte / []rune
		s, ok := x.(Str)
		if !ok {
			break
		}
		eb, _ := ut.Elem().Underlying().(*types.Basic)
		if eb != nil && eb.Kind() == types.Uint8 {
			cells := make([]Val, len(s))
			for i, b := range s {
				cells[i] = b
			}
			return SliceV{A: cells}
		}
		if eb != nil && eb.Kind() == types.Int32 {
			cs, ok := s.concrete()
			if !ok {
				// symbolic bytes: one rune per byte as long as every byte is ASCII (decided per byte, no fork
				// when the byte's domain is ASCII); anything else is outside what the engine models
				var cells []Val
				for i := 0; i < len(s); {
					r, size := ex.decodeRuneSym(s[i:])
					cells = append(cells, r)
					i += size
				}
				return SliceV{A: cells}
			}
			var cells []Val
			for _, r := range cs {
				cells = append(cells, Const(32, uint64(r)))
			}
			return SliceV{A: cells}
		}
	case *types.Basic:
		if ut.Kind() == types.UnsafePointer {
			return x
		}
		if ut.Info()&types.IsString != 0 {
			switch xv := x.(type) {
			case Str:
				return xv
			case SliceV:
				// []byte or []rune -> string
				eb, _ := us.(*types.Slice).Elem().Underlying().(*types.Basic)
				if eb.Kind() == types.Uint8 {
					r := make(Str, len(xv.A))
					for i, c := range xv.A {
						r[i] = c.(*Term)
					}
					return r
				}
				var out Str
				for _, c := range xv.A {
					t := c.(*Term)
					if t.IsConst() {
						out = append(out, mkStr(string(rune(t.Signed())))...)
					} else {
						out = append(out, ex.encodeRuneSym(t)...)
					}
				}
				return out
			case *Term:
				// integer -> string (rune)
				if !xv.IsConst() {
					if xv.W <= 32 {
						return ex.encodeRuneSym(xv)
					}
					// a wider integer: in range of a rune -> encode, otherwise U+FFFD
					if ex.branch(Cmp(OpULt, xv, Const(xv.W, 0x110000))) {
						return ex.encodeRuneSym(Resize(xv, 32, false))
					}
					return mkStr("\uFFFD")
				}
				_, signed, _ := intWidth(us)
				if signed {
					return mkStr(string(rune(xv.Signed())))
				}
				if xv.Val > utf8.MaxRune {
					return mkStr("�")
				}
				return mkStr(string(rune(xv.Val)))
			}
		}
		if w, _, ok := intWidth(ut); ok && w > 0 {
			switch xv := x.(type) {
			case *Term:
				_, ssigned, _ := intWidth(us)
				return Resize(xv, w, ssigned)
			case FloatV:
				return Const(w, uint64(int64(xv)))
			}
		}
		if ut.Info()&types.IsFloat != 0 {
			switch xv := x.(type) {
			case FloatV:
				return xv
			case *Term:
				if xv.IsConst() {
					_, ssigned, _ := intWidth(us)
					if ssigned {
						return FloatV(float64(xv.Signed()))
					}
					return FloatV(float64(xv.Val))
				}
			}
		}
	}
	panic(inconclusive{fmt.Sprintf("unsupported conversion %v -> %v (%T)", tSrc, tDst, x)})
}

func (ex *Exec) slice(instr *ssa.Slice, x, lo, hi, max Val) Val {
	var Len, Cap int
	switch x := x.(type) {
	case Str:
		Len = len(x)
		Cap = Len
	case SliceV:
		Len = len(x.A)
		Cap = cap(x.A)
	case *Val:
		if x == nil {
			ex.targetPanic("runtime error: invalid memory address or nil pointer dereference")
		}
		a := (*x).(ArrayV)
		Len = len(a)
		Cap = Len
	default:
		panic(inconclusive{fmt.Sprintf("slice of %T", x)})
	}
	l := 0
	if lo != nil {
		l = ex.sliceIdx(lo)
	}
	h := Len
	if hi != nil {
		h = ex.sliceIdx(hi)
	}
	m := Cap
	if max != nil {
		m = ex.sliceIdx(max)
	}
	if _, isStr := x.(Str); isStr {
		if h < 0 || h > Len {
			ex.targetPanic(fmt.Sprintf("runtime error: slice bounds out of range [:%d] with length %d", h, Len))
		}
	} else if m < 0 || m > Cap {
		ex.targetPanic(fmt.Sprintf("runtime error: slice bounds out of range [::%d] with capacity %d", m, Cap))
	} else if h < 0 || h > m {
		if max == nil {
			ex.targetPanic(fmt.Sprintf("runtime error: slice bounds out of range [:%d] with capacity %d", h, Cap))
		}
		ex.targetPanic(fmt.Sprintf("runtime error: slice bounds out of range [:%d:%d]", h, m))
	}
	if l < 0 || l > h {
		ex.targetPanic(fmt.Sprintf("runtime error: slice bounds out of range [%d:%d]", l, h))
	}
	switch x := x.(type) {
	case Str:
		return x[l:h]
	case SliceV:
		if x.Nil {
			return SliceV{Nil: true}
		}
		return SliceV{A: x.A[l:h:m]}
	case *Val:
		a := (*x).(ArrayV)
		return SliceV{A: a[l:h:m]}
	}
	panic("unreachable")
}

func (ex *Exec) sliceIdx(v Val) int {
	i := ex.concreteInt(v, "slice index")
	if i > 1<<40 || i < -(1<<40) {
		if i < 0 {
			return -1
		}
		return 1 << 40
	}
	return int(i)
}

func isConstTable(cells []Val) bool {
	if len(cells) == 0 || len(cells) > 512 {
		return false
	}
	for _, c := range cells {
		t, ok := c.(*Term)
		if !ok || !t.IsConst() {
			return false
		}
	}
	return true
}

func (ex *Exec) indexAddr(x, idx Val) Val {
	var cells []Val
	switch x := x.(type) {
	case SliceV:
		cells = x.A
	case *Val:
		if x == nil {
			ex.targetPanic("runtime error: invalid memory address or nil pointer dereference")
		}
		cells = (*x).(ArrayV)
	default:
		panic(inconclusive{fmt.Sprintf("IndexAddr on %T", x)})
	}
	it := idx.(*Term)
	if !it.IsConst() && isConstTable(cells) && len(cells) >= 16 {
		return &SymPtr{Arr: cells, Idx: it}
	}
	i := ex.concreteInt(idx, "index")
	if i < 0 || i >= int64(len(cells)) {
		ex.targetPanic(fmt.Sprintf("runtime error: index out of range [%d] with length %d", i, len(cells)))
	}
	return &cells[i]
}

func (ex *Exec) index(x, idx Val) Val {
	switch x := x.(type) {
	case ArrayV:
		i := ex.concreteInt(idx, "index")
		if i < 0 || i >= int64(len(x)) {
			ex.targetPanic(fmt.Sprintf("runtime error: index out of range [%d] with length %d", i, len(x)))
		}
		return copyVal(x[i])
	case Str:
		return ex.strIndex(x, idx.(*Term))
	}
	panic(inconclusive{fmt.Sprintf("Index on %T", x)})
}

func (ex *Exec) strIndex(s Str, idx *Term) Val {
	if !idx.IsConst() && len(s) > 0 && len(s) <= 512 {
		// symbolic index into a string: ite chain (no fork) after the bounds check
		n := len(s)
		inb := Cmp(OpULt, idx, Const(idx.W, uint64(n)))
		if !ex.branch(inb) {
			ex.targetPanic(fmt.Sprintf("runtime error: index out of range [?] with length %d", n))
		}
		r := s[n-1]
		for i := n - 2; i >= 0; i-- {
			r = Ite(Eq(idx, Const(idx.W, uint64(i))), s[i], r)
		}
		return r
	}
	i := ex.concreteInt(idx, "string index")
	if i < 0 || i >= int64(len(s)) {
		ex.targetPanic(fmt.Sprintf("runtime error: index out of range [%d] with length %d", i, len(s)))
	}
	return s[i]
}

func (ex *Exec) lookup(instr *ssa.Lookup, x, idx Val) Val {
	switch x := x.(type) {
	case Str:
		return ex.strIndex(x, idx.(*Term))
	case *MapV:
		var v Val
		ok := False
		if x != nil {
			v, ok = ex.mapLookup(x, idx)
		}
		if v == nil {
			v = zero(instr.X.Type().Underlying().(*types.Map).Elem())
		}
		if instr.CommaOk {
			return Tuple{copyVal(v), ok}
		}
		return copyVal(v)
	}
	panic(inconclusive{fmt.Sprintf("Lookup on %T", x)})
}

func isScalar(v Val) bool {
	switch v := v.(type) {
	case *Term:
		return true
	case StructV:
		return len(v) == 0
	}
	return false
}

// mapLookup finds key in m. With a symbolic key it forks over the entries the
// key may equal (or builds an ite chain when the values are scalars).
func (ex *Exec) mapLookup(m *MapV, key Val) (Val, *Term) {
	if ex.memHook != nil {
		ex.memHookMap(m, false)
	}
	type cand struct {
		i  int
		eq *Term
	}
	var cands []cand
	for i := range m.Entries {
		eq := ex.equal(m.Entries[i].K, key)
		if eq.IsTrue() {
			return m.Entries[i].V, True
		}
		if !eq.IsFalse() {
			cands = append(cands, cand{i, eq})
		}
	}
	if len(cands) == 0 {
		return nil, False
	}
	allScalar := true
	for _, c := range cands {
		if !isScalar(m.Entries[c.i].V) {
			allScalar = false
			break
		}
	}
	if allScalar {
		ok := False
		var val Val
		if t0, isT := m.Entries[cands[0].i].V.(*Term); isT {
			r := Const(t0.W, 0)
			for j := len(cands) - 1; j >= 0; j-- {
				r = Ite(cands[j].eq, m.Entries[cands[j].i].V.(*Term), r)
			}
			val = r
		} else {
			val = StructV{}
		}
		for _, c := range cands {
			ok = Or(ok, c.eq)
		}
		return val, ok
	}
	for _, c := range cands {
		if ex.branch(c.eq) {
			return m.Entries[c.i].V, True
		}
	}
	return nil, False
}

func (ex *Exec) mapUpdate(m *MapV, key, val Val) {
	if ex.memHook != nil {
		ex.memHookMap(m, true)
	}
	for i := range m.Entries {
		eq := ex.equal(m.Entries[i].K, key)
		if eq.IsFalse() {
			continue
		}
		if ex.branch(eq) {
			m.Entries[i].V = copyVal(val)
			return
		}
	}
	m.Entries = append(m.Entries, mapEntry{K: copyVal(key), V: copyVal(val)})
}

func (ex *Exec) mapDelete(m *MapV, key Val) {
	if m == nil {
		return
	}
	if ex.memHook != nil {
		ex.memHookMap(m, true)
	}
	for i := range m.Entries {
		eq := ex.equal(m.Entries[i].K, key)
		if eq.IsFalse() {
			continue
		}
		if ex.branch(eq) {
			m.Entries = append(m.Entries[:i:i], m.Entries[i+1:]...)
			return
		}
	}
}

func (ex *Exec) typeAssert(instr *ssa.TypeAssert, itf Iface) Val {
	var v Val
	ok := false
	if itf.T != nil {
		if types.IsInterface(instr.AssertedType) {
			if ti, isI := instr.AssertedType.Underlying().(*types.Interface); isI {
				if ex.eng.implements(itf.T, ti) {
					v = itf
					ok = true
				}
			}
		} else if types.Identical(itf.T, instr.AssertedType) {
			v = copyVal(itf.V)
			ok = true
		}
	}
	if !ok {
		if !instr.CommaOk {
			if itf.T == nil {
				ex.targetPanic(fmt.Sprintf("interface conversion: interface is nil, not %s", instr.AssertedType))
			}
			ex.targetPanic(fmt.Sprintf("interface conversion: interface is %s, not %s", itf.T, instr.AssertedType))
		}
		return Tuple{zero(instr.AssertedType), False}
	}
	if instr.CommaOk {
		return Tuple{v, True}
	}
	return v
}

func (eng *Engine) implements(t types.Type, ti *types.Interface) bool {
	return types.Implements(t, ti)
}

func (ex *Exec) rangeIter(x Val) Val {
	switch x := x.(type) {
	case *MapV:
		if x == nil {
			return &mapIter{}
		}
		if ex.memHook != nil {
			ex.memHookMap(x, false)
		}
		it := &mapIter{m: x, entries: append([]mapEntry(nil), x.Entries...)}
		it.visited = make([]bool, len(it.entries))
		return it
	case Str:
		return &strIter{s: x}
	}
	panic(inconclusive{fmt.Sprintf("range over %T", x)})
}

func (ex *Exec) next(instr *ssa.Next, it Val) Val {
	switch it := it.(type) {
	case *mapIter:
		// entries deleted during iteration are skipped
		stillPresent := func(i int) bool {
			// fast path: nothing was deleted before position i, the entry sits where it was
			if i < len(it.m.Entries) && ex.equal(it.m.Entries[i].K, it.entries[i].K).IsTrue() {
				it.entries[i].V = it.m.Entries[i].V
				return true
			}
			for j := range it.m.Entries {
				if ex.equal(it.m.Entries[j].K, it.entries[i].K).IsTrue() {
					it.entries[i].V = it.m.Entries[j].V
					return true
				}
			}
			return false
		}
		if !ex.eng.Cfg.MapOrderAny {
			// fixed (insertion) order: only the next candidate has to be looked at
			for it.pos < len(it.entries) {
				i := it.pos
				it.pos++
				it.visited[i] = true
				if stillPresent(i) {
					return Tuple{True, copyVal(it.entries[i].K), copyVal(it.entries[i].V)}
				}
			}
			return Tuple{False, nil, nil}
		}
		var remaining []int
		for i := range it.entries {
			if it.visited[i] {
				continue
			}
			if stillPresent(i) {
				remaining = append(remaining, i)
			} else {
				it.visited[i] = true
			}
		}
		if len(remaining) == 0 {
			return Tuple{False, nil, nil}
		}
		pick := 0
		if ex.eng.Cfg.MapOrderAny && len(remaining) > 1 {
			ex.mapRangeSites[ex.site(ex.cur)] = true
			pick = ex.chooseN(len(remaining))
		}
		i := remaining[pick]
		it.visited[i] = true
		return Tuple{True, copyVal(it.entries[i].K), copyVal(it.entries[i].V)}
	case *strIter:
		if it.pos >= len(it.s) {
			return Tuple{False, Const(64, 0), Const(32, 0)}
		}
		pos := it.pos
		b := it.s[pos]
		if b.IsConst() && b.Val < utf8.RuneSelf {
			it.pos++
			return Tuple{True, Const(64, uint64(pos)), Const(32, b.Val)}
		}
		// general case: symbolic UTF-8 decoding (utf8sym.go)
		r, size := ex.decodeRuneSym(it.s[pos:])
		it.pos += size
		return Tuple{True, Const(64, uint64(pos)), r}
	}
	panic(inconclusive{fmt.Sprintf("next on %T", it)})
}

func (ex *Exec) callBuiltin(caller *frame, fn *ssa.Builtin, args []Val) Val {
	switch fn.Name() {
	case "append":
		if len(args) == 1 {
			return args[0]
		}
		var add []Val
		switch y := args[1].(type) {
		case Str:
			add = make([]Val, len(y))
			for i, b := range y {
				add[i] = b
			}
		case SliceV:
			add = make([]Val, len(y.A))
			for i, c := range y.A {
				add[i] = copyVal(c)
			}
		}
		x := args[0].(SliceV)
		if len(add) == 0 {
			return x
		}
		// Go's growth policy is unspecified beyond aliasing when cap suffices; mimic gc closely enough:
		if len(x.A)+len(add) <= cap(x.A) {
			n := len(x.A)
			r := x.A[:n+len(add)]
			copy(r[n:], add)
			return SliceV{A: r}
		}
		newCap := growCap(cap(x.A), len(x.A)+len(add))
		r := make([]Val, len(x.A)+len(add), newCap)
		for i, c := range x.A {
			r[i] = c
		}
		copy(r[len(x.A):], add)
		// fill spare capacity with zero values lazily: cells beyond len are only reachable through reslicing
		if newCap > len(r) && len(r) > 0 {
			z := zeroLike(r[0])
			full := r[:newCap]
			for i := len(r); i < newCap; i++ {
				full[i] = copyVal(z)
			}
		}
		return SliceV{A: r}
	case "copy":
		dst := args[0].(SliceV)
		var n int
		switch src := args[1].(type) {
		case Str:
			n = len(src)
			if len(dst.A) < n {
				n = len(dst.A)
			}
			for i := 0; i < n; i++ {
				dst.A[i] = src[i]
			}
		case SliceV:
			n = len(src.A)
			if len(dst.A) < n {
				n = len(dst.A)
			}
			// memmove semantics
			tmp := make([]Val, n)
			for i := 0; i < n; i++ {
				tmp[i] = copyVal(src.A[i])
			}
			copy(dst.A, tmp)
		}
		return Const(64, uint64(n))
	case "len":
		switch x := args[0].(type) {
		case Str:
			return Const(64, uint64(len(x)))
		case SliceV:
			return Const(64, uint64(len(x.A)))
		case *MapV:
			if x == nil {
				return Const(64, 0)
			}
			return Const(64, uint64(len(x.Entries)))
		case ArrayV:
			return Const(64, uint64(len(x)))
		case *Val:
			return Const(64, uint64(len((*x).(ArrayV))))
		}
	case "cap":
		switch x := args[0].(type) {
		case SliceV:
			return Const(64, uint64(cap(x.A)))
		case ArrayV:
			return Const(64, uint64(len(x)))
		case *Val:
			return Const(64, uint64(len((*x).(ArrayV))))
		}
	case "delete":
		ex.mapDelete(args[0].(*MapV), args[1])
		return nil
	case "panic":
		panic(targetPanic{v: args[0], site: ex.site(caller)})
	case "recover":
		return ex.doRecover(caller)
	case "print", "println":
		return nil
	case "min", "max":
		r := args[0].(*Term)
		_, signed, _ := intWidth(fn.Type().(*types.Signature).Results().At(0).Type())
		for _, a := range args[1:] {
			at := a.(*Term)
			var lt *Term
			if signed {
				lt = Cmp(OpSLt, at, r)
			} else {
				lt = Cmp(OpULt, at, r)
			}
			if fn.Name() == "max" {
				lt = Not(Or(lt, Eq(at, r)))
			}
			r = Ite(lt, at, r)
		}
		return r
	case "clear":
		switch x := args[0].(type) {
		case *MapV:
			if x != nil {
				x.Entries = nil
			}
			return nil
		case SliceV:
			for i := range x.A {
				x.A[i] = zeroLike(x.A[i])
			}
			return nil
		}
	case "ssa:wrapnilchk":
		recv := args[0]
		if p, ok := recv.(*Val); ok && p == nil {
			ex.targetPanic("value method called using nil pointer")
		}
		return recv
	}
	panic(inconclusive{"unsupported builtin " + fn.Name() + fmt.Sprintf(" %T", args[0])})
}

func zeroLike(v Val) Val {
	switch v := v.(type) {
	case *Term:
		return Const(v.W, 0)
	case Str:
		return Str(nil)
	case *Val:
		return (*Val)(nil)
	case StructV:
		n := make(StructV, len(v))
		for i := range v {
			n[i] = zeroLike(v[i])
		}
		return n
	case ArrayV:
		n := make(ArrayV, len(v))
		for i := range v {
			n[i] = zeroLike(v[i])
		}
		return n
	case SliceV:
		return SliceV{Nil: true}
	case *MapV:
		return (*MapV)(nil)
	case Iface:
		return Iface{}
	case *ssa.Function, *Closure:
		return (*ssa.Function)(nil)
	case FloatV:
		return FloatV(0)
	}
	return nil
}

// growCap approximates the gc runtime's append growth (the exact policy is
// unspecified by the language; only "cap >= needed" matters for correctness,
// aliasing after growth never happens).
func growCap(old, needed int) int {
	newcap := old
	doublecap := newcap + newcap
	if needed > doublecap {
		return needed
	}
	const threshold = 256
	if old < threshold {
		if doublecap == 0 {
			return needed
		}
		return doublecap
	}
	for newcap < needed {
		newcap += (newcap + 3*threshold) / 4
	}
	return newcap
}

// assignInPlace stores v into the cell p. Struct and array values are copied
// element-wise into the existing storage so that pointers to fields/elements
// taken earlier (FieldAddr, IndexAddr) stay valid, as in Go's memory model.
func assignInPlace(p *Val, v Val) {
	switch nv := v.(type) {
	case StructV:
		if old, ok := (*p).(StructV); ok && len(old) == len(nv) {
			for i := range nv {
				assignInPlace(&old[i], nv[i])
			}
			return
		}
	case ArrayV:
		if old, ok := (*p).(ArrayV); ok && len(old) == len(nv) {
			for i := range nv {
				assignInPlace(&old[i], nv[i])
			}
			return
		}
	}
	*p = copyVal(v)
}
