package sym

// Symbolic UTF-8: decoding and encoding fork on the *shape* of the sequence only
// (lead-byte class, validity of the continuation bytes, size class of the rune); the
// rune / the bytes are terms over the input. This mirrors unicode/utf8 exactly
// (RFC 3629 ranges: no overlongs, no surrogates, nothing above U+10FFFF; an invalid
// sequence decodes to U+FFFD of width 1), without interpreting its table-driven code
// on symbolic bytes.

func (ex *Exec) inRange(b *Term, lo, hi uint64) bool {
	return ex.branch(And(Cmp(OpULe, Const(b.W, lo), b), Cmp(OpULe, b, Const(b.W, hi))))
}

// decodeRuneSym decodes the first rune of s (len(s) >= 1): (rune as a 32-bit term, size).
func (ex *Exec) decodeRuneSym(s Str) (*Term, int) {
	r, n, _ := ex.decodeRuneSymOK(s)
	return r, n
}

// decodeRuneSymOK also tells whether the sequence was well-formed.
func (ex *Exec) decodeRuneSymOK(s Str) (*Term, int, bool) {
	bad := func() (*Term, int, bool) { return Const(32, 0xFFFD), 1, false }
	b0 := s[0]
	if ex.branch(Cmp(OpULt, b0, Const(8, 0x80))) {
		return Resize(b0, 32, false), 1, true
	}
	cont := func(i int, lo, hi uint64) bool { return i < len(s) && ex.inRange(s[i], lo, hi) }
	low6 := func(b *Term) *Term { return Bin(OpBAnd, Resize(b, 32, false), Const(32, 0x3F)) }
	shl := func(t *Term, n uint64) *Term { return Bin(OpShl, t, Const(32, n)) }
	switch {
	case ex.inRange(b0, 0xC2, 0xDF):
		if !cont(1, 0x80, 0xBF) {
			return bad()
		}
		r := Bin(OpBOr, shl(Bin(OpBAnd, Resize(b0, 32, false), Const(32, 0x1F)), 6), low6(s[1]))
		return r, 2, true
	case ex.inRange(b0, 0xE0, 0xEF):
		lo, hi := uint64(0x80), uint64(0xBF)
		if ex.branch(Eq(b0, Const(8, 0xE0))) {
			lo = 0xA0
		} else if ex.branch(Eq(b0, Const(8, 0xED))) {
			hi = 0x9F
		}
		if !cont(1, lo, hi) || !cont(2, 0x80, 0xBF) {
			return bad()
		}
		r := Bin(OpBOr, Bin(OpBOr, shl(Bin(OpBAnd, Resize(b0, 32, false), Const(32, 0x0F)), 12), shl(low6(s[1]), 6)), low6(s[2]))
		return r, 3, true
	case ex.inRange(b0, 0xF0, 0xF4):
		lo, hi := uint64(0x80), uint64(0xBF)
		if ex.branch(Eq(b0, Const(8, 0xF0))) {
			lo = 0x90
		} else if ex.branch(Eq(b0, Const(8, 0xF4))) {
			hi = 0x8F
		}
		if !cont(1, lo, hi) || !cont(2, 0x80, 0xBF) || !cont(3, 0x80, 0xBF) {
			return bad()
		}
		r := Bin(OpBOr, Bin(OpBOr, Bin(OpBOr, shl(Bin(OpBAnd, Resize(b0, 32, false), Const(32, 0x07)), 18), shl(low6(s[1]), 12)), shl(low6(s[2]), 6)), low6(s[3]))
		return r, 4, true
	}
	return bad()
}

// encodeRuneSym is utf8.AppendRune for a symbolic 32-bit rune.
func (ex *Exec) encodeRuneSym(r *Term) Str {
	r = Resize(r, 32, true)
	byteOf := func(t *Term) *Term { return Resize(t, 8, false) }
	shr := func(n uint64) *Term { return Bin(OpLShr, r, Const(32, n)) }
	low6 := func(t *Term) *Term { return byteOf(Bin(OpBOr, Bin(OpBAnd, t, Const(32, 0x3F)), Const(32, 0x80))) }
	ult := func(v uint64) bool { return ex.branch(Cmp(OpULt, r, Const(32, v))) }
	switch {
	case ult(0x80):
		return Str{byteOf(r)}
	case ult(0x800):
		return Str{byteOf(Bin(OpBOr, shr(6), Const(32, 0xC0))), low6(r)}
	case ult(0x10000):
		if !ult(0xD800) && ult(0xE000) {
			return mkStr("\uFFFD") // surrogate half
		}
		return Str{byteOf(Bin(OpBOr, shr(12), Const(32, 0xE0))), low6(shr(6)), low6(r)}
	case ult(0x110000):
		return Str{byteOf(Bin(OpBOr, shr(18), Const(32, 0xF0))), low6(shr(12)), low6(shr(6)), low6(r)}
	}
	return mkStr("\uFFFD") // negative or above the Unicode range
}

// ---- unicode/utf8 entry points on symbolic input ----

func utf8Bytes(v Val) Str {
	switch x := v.(type) {
	case Str:
		return x
	case SliceV:
		return toStr(x)
	}
	return nil
}

func inUTF8Decode(ex *Exec, fr *frame, args []Val) Val {
	s := utf8Bytes(args[0])
	if len(s) == 0 {
		return Tuple{Const(32, 0xFFFD), Const(64, 0)}
	}
	r, n := ex.decodeRuneSym(s)
	return Tuple{r, Const(64, uint64(n))}
}

func inUTF8Valid(ex *Exec, fr *frame, args []Val) Val {
	s := utf8Bytes(args[0])
	for i := 0; i < len(s); {
		_, n, ok := ex.decodeRuneSymOK(s[i:])
		if !ok {
			return False
		}
		i += n
	}
	return True
}

func inUTF8RuneCount(ex *Exec, fr *frame, args []Val) Val {
	s := utf8Bytes(args[0])
	c := 0
	for i := 0; i < len(s); c++ {
		_, n := ex.decodeRuneSym(s[i:])
		i += n
	}
	return Const(64, uint64(c))
}

func inUTF8AppendRune(ex *Exec, fr *frame, args []Val) Val {
	p := args[0].(SliceV)
	enc := ex.encodeRuneSym(args[1].(*Term))
	cells := append([]Val(nil), p.A...)
	for _, b := range enc {
		cells = append(cells, b)
	}
	return SliceV{A: cells}
}

func inUTF8RuneLen(ex *Exec, fr *frame, args []Val) Val {
	r := Resize(args[0].(*Term), 32, true)
	ult := func(v uint64) bool { return ex.branch(Cmp(OpULt, r, Const(32, v))) }
	switch {
	case ult(0x80):
		return Const(64, 1)
	case ult(0x800):
		return Const(64, 2)
	case ult(0x10000):
		if !ult(0xD800) && ult(0xE000) {
			return Const(64, ^uint64(0))
		}
		return Const(64, 3)
	case ult(0x110000):
		return Const(64, 4)
	}
	return Const(64, ^uint64(0))
}
