package sym

// Byte-domain shortcut. Most branch conditions of byte-level code mention a
// single 8-bit input variable (c == '#', c < 0x80, table[c] != 0 ...). For
// those the engine keeps, per variable, the set of values still allowed by the
// single-variable conjuncts of the path condition, and decides the condition by
// evaluating it for every value of the set (at most 256 evaluations) instead of
// a solver round trip:
//   - true for all values  -> implied (sound even if other constraints narrow the set further)
//   - false for all values -> contradicted
//   - mixed, and the variable occurs in no multi-variable conjunct -> both sides
//     feasible, and a model of either side is the current model with the variable
//     replaced by a witness value
//   - otherwise the solver decides.
// The shortcut is a deterministic function of the path-condition history, so a
// replayed decision prefix sees exactly the same sequence of recorded decisions.

type byteDom [4]uint64

func (d *byteDom) has(v uint64) bool { return d[v>>6]&(1<<(v&63)) != 0 }
func (d *byteDom) set(v uint64)      { d[v>>6] |= 1 << (v & 63) }
func (d *byteDom) empty() bool       { return d[0]|d[1]|d[2]|d[3] == 0 }
func (d *byteDom) first() uint64 {
	for v := uint64(0); v < 256; v++ {
		if d.has(v) {
			return v
		}
	}
	return 0
}

var fullDom = byteDom{^uint64(0), ^uint64(0), ^uint64(0), ^uint64(0)}

// uniVar returns the single variable of t (nil if none or several).
// multi reports that t has two or more distinct variables.
func uniVar(t *Term, memo map[*Term]*uniInfo) *uniInfo {
	switch t.Op {
	case OpConst:
		return &uniNone
	case OpVar:
		if u, ok := memo[t]; ok {
			return u
		}
		u := &uniInfo{v: t}
		memo[t] = u
		return u
	}
	if u, ok := memo[t]; ok {
		return u
	}
	res := &uniNone
	for _, a := range t.A {
		u := uniVar(a, memo)
		if u.multi {
			res = u
			break
		}
		if u.v == nil {
			continue
		}
		if res.v == nil {
			res = u
		} else if res.v.Name != u.v.Name {
			res = &uniMulti
			break
		}
	}
	memo[t] = res
	return res
}

type uniInfo struct {
	v     *Term
	multi bool
}

var (
	uniNone  = uniInfo{}
	uniMulti = uniInfo{multi: true}
)

func (ex *Exec) domOf(name string) *byteDom {
	d := ex.doms[name]
	if d == nil {
		d = new(byteDom)
		*d = fullDom
		ex.doms[name] = d
	}
	return d
}

// splitDom evaluates c (whose only variable is the 8-bit v) over v's domain.
func (ex *Exec) splitDom(c *Term, v *Term) (tset, fset byteDom) {
	d := ex.domOf(v.Name)
	model := map[string]uint64{}
	memo := map[*Term]uint64{}
	for x := uint64(0); x < 256; x++ {
		if !d.has(x) {
			continue
		}
		model[v.Name] = x
		for k := range memo {
			delete(memo, k)
		}
		if eval(c, model, memo) == 1 {
			tset.set(x)
		} else {
			fset.set(x)
		}
	}
	return
}

// noteConstraintVars records, for every conjunct added to the path condition,
// either the domain restriction (single byte variable) or that its variables
// are entangled (multi-variable conjunct).
func (ex *Exec) noteConstraint(c *Term) {
	u := uniVar(c, ex.uniMemo)
	if u.multi {
		set := map[string]uint8{}
		Vars(c, set, map[*Term]bool{})
		for n := range set {
			ex.entangled[n] = true
		}
		return
	}
	if u.v == nil {
		return
	}
	if u.v.W != 8 {
		ex.entangled[u.v.Name] = true
		return
	}
	tset, _ := ex.splitDom(c, u.v)
	*ex.domOf(u.v.Name) = tset
}
