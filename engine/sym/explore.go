package sym

import (
	"fmt"
	"go/types"
	"os"
	"sort"
	"strings"
	"sync"
	"time"

	"golang.org/x/tools/go/packages"
	"golang.org/x/tools/go/ssa"
	"golang.org/x/tools/go/ssa/ssautil"
)

// Config describes one harness run.
type Config struct {
	Pkg             string            // package directory relative to the repo module, e.g. "core"
	Harness         string            // function name
	Bounds          map[string]int    // verifrt.Bound values
	Stubs           map[string]string // real function (ssa name) -> harness function name ("pkg.Func" or "Func")
	Tabulate        []string          // pure functions over small finite domains to summarise by table
	MapOrderAny     bool              // explore every map iteration order
	StepBudget      int
	DepthBudget     int
	BudgetViolation bool // exceeding a budget is a candidate violation (termination properties)
	// FocusProperty: when set (gosym check <ID>), assertions whose id does not start with "<ID>." are not
	// evaluated at all. A harness hosts assertions of several properties; a violated assertion ends its path
	// (execution continues only under the asserted condition), so without this an earlier assertion of
	// another property would mask the later assertions of the property being checked.
	FocusProperty   string
	SolverBin       string
	SolverTimeoutMs int
	Workers         int
	MaxPaths        int
	MaxWallS        int    // wall-clock cap per harness run: exploration stops and the run is inconclusive (never a pass)
	LockMonitor     bool   // Eraser-style lock discipline monitor
	FullSchemaLib   bool   // initialise and interpret the schema library's packages too (concrete bodies only)
	GlobalMonitor   bool   // report stores to package-level state
	LogQueries      string // file to append standalone solver queries (with the answer z3 gave) to
	LogEvery        int    // log every n-th query
	Verbose         bool
	Only            string // restrict to one decision prefix (debug)
}

// Fault is a run-time fault raised by the engine on behalf of the program.
type Fault struct {
	Msg   string
	Site  string
	Stack []string
}

// Violation is a counterexample found on some path.
type Violation struct {
	Kind    string            `json:"kind"` // assert | panic | budget | swallowed-fault | lock | global-write
	ID      string            `json:"id"`
	Msg     string            `json:"msg"`
	Site    string            `json:"site"`
	Stack   []string          `json:"stack,omitempty"`
	Model   map[string]uint64 `json:"model"`
	Harness string            `json:"harness"`
	Pkg     string            `json:"pkg"`
	Notes   map[string]string `json:"notes,omitempty"`
	Bounds  map[string]int    `json:"bounds,omitempty"`
}

// SampleModel is a concrete input of the explored region (a model of a reach witness).
type SampleModel struct {
	Reach string
	Model map[string]uint64
}

type AssertStat struct {
	Checked    int `json:"checked"`    // times the assertion was reached with a non-trivial condition
	Trivial    int `json:"trivial"`    // reached with a condition that folded to true
	Discharged int `json:"discharged"` // solver said unsat for PC ∧ ¬c
	Violated   int `json:"violated"`
	Unknown    int `json:"unknown"`
	Skipped    int `json:"skipped,omitempty"` // belongs to another property's check (FocusProperty)
}

// Report aggregates a harness run.
type Report struct {
	Harness       string
	Pkg           string
	Bounds        map[string]int
	Paths         int
	Infeasible    int
	Steps         int64
	Violations    []Violation
	Inconclusive  map[string]int
	Asserts       map[string]*AssertStat
	Reach         map[string]int
	Samples       []map[string]string
	SampleModels  []SampleModel
	Funcs         map[string]string // function -> "real" | "reference" | "stub" | "lib" | "intrinsic" | "stubbed"
	MapRangeSites map[string]bool
	Queries       int
	SolverSat     int
	SolverUnsat   int
	SolverUnknown int
	SolverErrors  int
	SolverTime    time.Duration
	Wall          time.Duration
	PathCapHit    bool
	WallCapHit    bool
	DomDecided    int
	AssertPaths   int // feasible paths on which at least one assertion was evaluated
	Notes         map[string]int
}

// Engine holds the loaded program (shared, read-only after Load).
type Engine struct {
	Prog               *ssa.Program
	Pkgs               []*packages.Package
	RepoModule         string
	Cfg                Config
	runtimeErrorString types.Type
	funcs              map[string]*ssa.Function
	funcsOnce          sync.Once
	stubs              map[*ssa.Function]*ssa.Function
	intrinsics         map[*ssa.Function]Intrinsic
	intrMu             sync.Mutex
	harnessFn          *ssa.Function
	harnessPkg         *ssa.Package
	initAllowed        func(path string) bool
	tabulate           map[*ssa.Function]*tabulated
	tabMu              sync.Mutex

	sharedGlobals map[*ssa.Global]*Val
	sharedMu      sync.RWMutex
	booted        bool
	runStart      time.Time

	// worklist
	mu      sync.Mutex
	cond    *sync.Cond
	stack   []*pending
	active  int
	started int
	stop    bool
	report  *Report
}

type pending struct {
	prefix []int64
	model  map[string]uint64
}

// Load loads /repo (with overlay files) and builds SSA.
func Load(repoDir string, overlay map[string][]byte) (*Engine, error) {
	cfg := &packages.Config{
		Mode:    packages.LoadAllSyntax | packages.NeedModule,
		Dir:     repoDir,
		Overlay: overlay,
		Env:     append(os.Environ(), "GOFLAGS=-mod=mod", "GOPROXY=off", "GOSUMDB=off", "GOTOOLCHAIN=local"),
	}
	pkgs, err := packages.Load(cfg, "./...")
	if err != nil {
		return nil, err
	}
	var errs []string
	packages.Visit(pkgs, nil, func(p *packages.Package) {
		for _, e := range p.Errors {
			errs = append(errs, e.Error())
		}
	})
	if len(errs) > 0 {
		return nil, fmt.Errorf("package load errors:\n%s", strings.Join(errs, "\n"))
	}
	prog, _ := ssautil.AllPackages(pkgs, ssa.InstantiateGenerics)
	prog.Build()
	eng := &Engine{Prog: prog, Pkgs: pkgs}
	rt := prog.ImportedPackage("runtime")
	if rt == nil {
		return nil, fmt.Errorf("runtime package not loaded")
	}
	eng.runtimeErrorString = rt.Type("errorString").Object().Type()
	for _, p := range pkgs {
		if p.Module != nil && p.Module.Main {
			eng.RepoModule = p.Module.Path
			break
		}
	}
	eng.intrinsics = map[*ssa.Function]Intrinsic{}
	return eng, nil
}

func (eng *Engine) allFuncs() map[string]*ssa.Function {
	eng.funcsOnce.Do(func() {
		eng.funcs = map[string]*ssa.Function{}
		for fn := range ssautil.AllFunctions(eng.Prog) {
			eng.funcs[fn.String()] = fn
		}
	})
	return eng.funcs
}

func (eng *Engine) funcByName(pkgPath, name string) *ssa.Function {
	p := eng.Prog.ImportedPackage(pkgPath)
	if p == nil {
		panic(inconclusive{"package not loaded: " + pkgPath})
	}
	f := p.Func(name)
	if f == nil {
		panic(inconclusive{"function not found: " + pkgPath + "." + name})
	}
	return f
}

func (eng *Engine) allowZeroGlobal(g *ssa.Global) bool {
	return false
}

func (eng *Engine) sharedGlobal(g *ssa.Global) *Val {
	eng.sharedMu.RLock()
	c := eng.sharedGlobals[g]
	eng.sharedMu.RUnlock()
	if c != nil {
		return c
	}
	eng.sharedMu.Lock()
	defer eng.sharedMu.Unlock()
	if c := eng.sharedGlobals[g]; c != nil {
		return c
	}
	c = new(Val)
	*c = zero(deref(g.Type()))
	eng.sharedGlobals[g] = c
	return c
}

// bootstrap runs the initialisers of the shared (standard library) packages once.
func (eng *Engine) bootstrap() error {
	if eng.booted {
		return nil
	}
	eng.sharedGlobals = map[*ssa.Global]*Val{}
	solver, err := NewSolver(eng.Cfg.SolverBin, eng.Cfg.SolverTimeoutMs)
	if err != nil {
		return err
	}
	defer solver.Close()
	ex := eng.newExec(solver, &pending{model: map[string]uint64{}})
	ex.boot = true
	var failure error
	func() {
		defer func() {
			if r := recover(); r != nil {
				failure = fmt.Errorf("bootstrap of shared package initialisers failed: %v at %s; stack %v", r, ex.site(ex.cur), ex.stack())
			}
		}()
		pkgs := eng.Prog.AllPackages()
		sort.Slice(pkgs, func(i, j int) bool { return pkgs[i].Pkg.Path() < pkgs[j].Pkg.Path() })
		for _, p := range pkgs {
			if eng.sharedInit(p.Pkg.Path()) {
				if f := p.Func("init"); f != nil {
					ex.call(nil, f, nil)
				}
			}
		}
	}()
	eng.booted = failure == nil
	return failure
}

// Exec is the per-worker execution context (one path at a time).
type Exec struct {
	eng    *Engine
	solver *Solver

	prefix  []int64
	pos     int
	trace   []int64
	pc      []*Term
	flushed int
	model   map[string]uint64

	vars      map[string]uint8
	varOrder  []string
	nameCount map[string]int

	globals  map[*ssa.Global]*Val
	initDone map[*ssa.Package]bool
	cur      *frame
	steps    int
	depth    int

	faults    []Fault
	recovered []Fault
	onceDone  map[*Val]bool
	notes     map[string]string
	vfs       map[string]Val

	memHook       func(p *Val, write bool)
	memHookMap    func(m *MapV, write bool)
	locks         map[*Val]int // mutex cell -> 0 free, 1 write-held, n>1: n-1 readers (encoded as -(n))
	mapRangeSites map[string]bool

	doms       map[string]*byteDom
	entangled  map[string]bool
	uniMemo    map[*Term]*uniInfo
	DomDecided int

	queryCount   int
	syncMaps     map[*Val]*MapV
	sharedWrites []string

	needModelAfterPrefix bool
	lockMonitorOn        bool
	trackedObjs          []*tracked
	boot                 bool
	inOnce               int
	lastResult           Val

	// per-path results
	violations   []Violation
	incon        []string
	asserts      map[string]*AssertStat
	reach        map[string]int
	funcs        map[string]string
	sampleDone   bool
	samples      []map[string]string
	sampleModels []SampleModel
	extraNotes   map[string]int
	ptrIDs       map[interface{}]int // fake addresses for %p
	pools        map[*Val][]Val      // sync.Pool contents (LIFO)
	clockReads   int                 // number of time.now calls on this path
}

func (ex *Exec) noteFunc(fn *ssa.Function, kind string) {
	name := fn.String()
	if _, ok := ex.funcs[name]; ok && kind == "" {
		return
	}
	if kind == "" {
		kind = ex.eng.classify(fn)
	}
	ex.funcs[name] = kind
}

func (eng *Engine) classify(fn *ssa.Function) string {
	pkg := fn.Pkg
	if pkg == nil && fn.Origin() != nil {
		pkg = fn.Origin().Pkg
	}
	if pkg == nil {
		// synthetic wrapper: classify by receiver / name
		s := fn.String()
		if strings.Contains(s, eng.RepoModule) {
			return "real"
		}
		return "lib"
	}
	path := pkg.Pkg.Path()
	if strings.HasSuffix(path, "/internal/verifrt") {
		return "harness-rt"
	}
	if strings.HasPrefix(path, eng.RepoModule) {
		n := fn.Name()
		if p := fn.Parent(); p != nil {
			for p.Parent() != nil {
				p = p.Parent()
			}
			n = p.Name()
		}
		switch {
		case strings.HasPrefix(n, "VerifH_"):
			return "harness"
		case strings.HasPrefix(n, "ref") && isHarnessFile(eng, fn):
			return "reference"
		case strings.HasPrefix(n, "verifStub"):
			return "stub"
		case isHarnessFile(eng, fn):
			return "harness"
		}
		return "real"
	}
	return "lib"
}

func isHarnessFile(eng *Engine, fn *ssa.Function) bool {
	f := fn
	for f.Parent() != nil {
		f = f.Parent()
	}
	if !f.Pos().IsValid() {
		return false
	}
	return strings.Contains(eng.Prog.Fset.Position(f.Pos()).Filename, "zz_verif_")
}

// ---- path condition, decisions ----

func (ex *Exec) addPC(c *Term) {
	if c.IsTrue() {
		return
	}
	ex.pc = append(ex.pc, c)
	ex.noteConstraint(c)
}

func (ex *Exec) flushPC() {
	for ex.flushed < len(ex.pc) {
		ex.solver.Assert(ex.pc[ex.flushed])
		ex.flushed++
	}
}

func (ex *Exec) evalModel(c *Term) uint64 {
	return Eval(c, ex.model)
}

// check asks the solver for PC ∧ extra and returns a model on sat.
func (ex *Exec) check(extra *Term) (Result, map[string]uint64) {
	ex.flushPC()
	r, m := ex.solver.CheckModel(extra, ex.vars)
	if ex.eng.Cfg.LogQueries != "" && r != Unknown {
		ex.queryCount++
		if ex.queryCount%ex.eng.logEvery() == 0 {
			ex.eng.logQuery(r.String(), ex.solver.Script(extra))
		}
	}
	return r, m
}

func (ex *Exec) inPrefix() bool { return ex.pos < len(ex.prefix) }

// branch decides a symbolic condition, forking when both sides are feasible.
func (ex *Exec) branch(c *Term) (res bool) {
	if c.IsConst() {
		return c.Val == 1
	}
	if traceB {
		defer func() { fmt.Fprintf(os.Stderr, "B %v <- %s @ %s\n", res, c.String(), ex.site(ex.cur)) }()
	}
	// byte-domain shortcut (see domain.go)
	var domT, domF byteDom
	domSplit := false
	if u := uniVar(c, ex.uniMemo); !u.multi && u.v != nil && u.v.W == 8 {
		domT, domF = ex.splitDom(c, u.v)
		if domF.empty() && !domT.empty() {
			ex.DomDecided++
			return true
		}
		if domT.empty() && !domF.empty() {
			ex.DomDecided++
			return false
		}
		if !ex.entangled[u.v.Name] && !domT.empty() {
			domSplit = true
		}
	}
	if ex.inPrefix() {
		d := ex.prefix[ex.pos]
		ex.pos++
		ex.trace = append(ex.trace, d)
		if d == 1 {
			ex.addPC(c)
		} else {
			ex.addPC(Not(c))
		}
		return d == 1
	}
	ex.live()
	if domSplit {
		// both sides feasible; models differ only in this variable
		name := uniVar(c, ex.uniMemo).v.Name
		ex.DomDecided++
		mv := ex.evalModel(c) == 1
		alt := make([]int64, len(ex.trace)+1)
		copy(alt, ex.trace)
		am := ex.copyModel()
		if mv {
			alt[len(ex.trace)] = 0
			am[name] = domF.first()
			ex.trace = append(ex.trace, 1)
			ex.addPC(c)
		} else {
			alt[len(ex.trace)] = 1
			am[name] = domT.first()
			ex.trace = append(ex.trace, 0)
			ex.addPC(Not(c))
		}
		ex.eng.push(&pending{prefix: alt, model: am})
		return mv
	}
	mv := ex.evalModel(c) == 1
	if traceQ {
		fmt.Fprintf(os.Stderr, "Q %s @ %s\n", c.String(), ex.site(ex.cur))
	}
	var other *Term
	if mv {
		other = Not(c)
	} else {
		other = c
	}
	r, m := ex.check(other)
	if r != Unsat {
		alt := make([]int64, len(ex.trace)+1)
		copy(alt, ex.trace)
		if mv {
			alt[len(ex.trace)] = 0
		} else {
			alt[len(ex.trace)] = 1
		}
		if r == Unknown {
			m = nil
			ex.extraNotes["feasibility-unknown-kept"]++
		}
		ex.eng.push(&pending{prefix: alt, model: m})
	}
	if mv {
		ex.trace = append(ex.trace, 1)
		ex.addPC(c)
	} else {
		ex.trace = append(ex.trace, 0)
		ex.addPC(Not(c))
	}
	return mv
}

const maxConcretize = 1024

// concretize case-splits on the value of t.
func (ex *Exec) concretize(t *Term, why string) uint64 {
	if t.IsConst() {
		return t.Val
	}
	if ex.inPrefix() {
		d := uint64(ex.prefix[ex.pos])
		ex.pos++
		ex.trace = append(ex.trace, int64(d))
		ex.addPC(Eq(t, Const(t.W, d)))
		return d
	}
	ex.live()
	v0 := ex.evalModel(t)
	seen := []uint64{v0}
	block := Not(Eq(t, Const(t.W, v0)))
	for {
		r, m := ex.check(block)
		if r == Unsat {
			break
		}
		if r == Unknown {
			panic(inconclusive{"solver unknown while enumerating values for " + why})
		}
		v := Eval(t, m)
		for _, s := range seen {
			if s == v {
				panic(inconclusive{"solver model repeats a blocked value"})
			}
		}
		seen = append(seen, v)
		alt := make([]int64, len(ex.trace)+1)
		copy(alt, ex.trace)
		alt[len(ex.trace)] = int64(v)
		ex.eng.push(&pending{prefix: alt, model: m})
		block = And(block, Not(Eq(t, Const(t.W, v))))
		if len(seen) > maxConcretize {
			panic(inconclusive{fmt.Sprintf("more than %d feasible values for %s", maxConcretize, why)})
		}
	}
	ex.trace = append(ex.trace, int64(v0))
	ex.addPC(Eq(t, Const(t.W, v0)))
	return v0
}

// chooseN is pure nondeterminism (no constraint), e.g. map iteration order.
func (ex *Exec) chooseN(n int) int {
	if n <= 1 {
		return 0
	}
	if ex.inPrefix() {
		d := ex.prefix[ex.pos]
		ex.pos++
		ex.trace = append(ex.trace, d)
		return int(d)
	}
	ex.live()
	for i := n - 1; i >= 1; i-- {
		alt := make([]int64, len(ex.trace)+1)
		copy(alt, ex.trace)
		alt[len(ex.trace)] = int64(i)
		ex.eng.push(&pending{prefix: alt, model: ex.model})
	}
	ex.trace = append(ex.trace, 0)
	return 0
}

// assume adds c to the path condition; ends the path if infeasible.
func (ex *Exec) assume(c *Term) {
	if c.IsTrue() {
		return
	}
	if c.IsFalse() {
		panic(pathEnd{"assume false"})
	}
	if ex.inPrefix() {
		// the prefix was feasible including this assumption
		ex.addPC(c)
		return
	}
	if ex.evalModel(c) == 1 {
		ex.addPC(c)
		return
	}
	r, m := ex.check(c)
	switch r {
	case Unsat:
		panic(pathEnd{"assumption infeasible"})
	case Unknown:
		panic(inconclusive{"solver unknown on assumption"})
	}
	ex.addPC(c)
	ex.model = m
}

func (ex *Exec) copyModel() map[string]uint64 {
	m := make(map[string]uint64, len(ex.model))
	for k, v := range ex.model {
		m[k] = v
	}
	return m
}

func (ex *Exec) addViolation(kind, id, msg string, model map[string]uint64) {
	v := Violation{Kind: kind, ID: id, Msg: msg, Site: ex.site(ex.cur), Stack: ex.stack(),
		Model: map[string]uint64{}, Harness: ex.eng.Cfg.Harness, Pkg: ex.eng.Cfg.Pkg, Notes: map[string]string{}, Bounds: ex.eng.Cfg.Bounds}
	for name := range ex.vars {
		v.Model[name] = model[name]
	}
	for k, s := range ex.notes {
		v.Notes[k] = s
	}
	ex.violations = append(ex.violations, v)
}

// assert checks PC ⇒ c.
func (ex *Exec) assert(id string, c *Term) {
	st := ex.asserts[id]
	if st == nil {
		st = &AssertStat{}
		ex.asserts[id] = st
	}
	if fp := ex.eng.Cfg.FocusProperty; fp != "" && !strings.HasPrefix(id, fp+".") {
		st.Skipped++
		return
	}
	if c.IsTrue() {
		st.Trivial++
		return
	}
	st.Checked++
	if ex.inPrefix() {
		// already decided on the parent path up to here; keep path condition consistent
		ex.addPC(c)
		st.Checked--
		return
	}
	neg := Not(c)
	if neg.IsTrue() || ex.evalModel(neg) == 1 {
		st.Violated++
		ex.addViolation("assert", id, "assertion violated", ex.model)
	} else {
		r, m := ex.check(neg)
		switch r {
		case Unsat:
			st.Discharged++
			ex.addPC(c) // harmless, helps the solver
			return
		case Unknown:
			st.Unknown++
			ex.incon = append(ex.incon, "assertion "+id+": solver unknown")
		default:
			st.Violated++
			ex.addViolation("assert", id, "assertion violated", m)
		}
	}
	// continue under c
	ex.assume(c)
}

// ---- worklist ----

func (eng *Engine) push(p *pending) {
	eng.mu.Lock()
	eng.stack = append(eng.stack, p)
	eng.mu.Unlock()
	eng.cond.Signal()
}

func (eng *Engine) pop() *pending {
	eng.mu.Lock()
	defer eng.mu.Unlock()
	for {
		if eng.stop {
			return nil
		}
		if n := len(eng.stack); n > 0 {
			p := eng.stack[n-1]
			eng.stack = eng.stack[:n-1]
			eng.active++
			eng.started++
			if eng.Cfg.MaxWallS > 0 && time.Since(eng.runStart) > time.Duration(eng.Cfg.MaxWallS)*time.Second {
				eng.stop = true
				eng.report.WallCapHit = true
				eng.active--
				eng.cond.Broadcast()
				return nil
			}
			if eng.Cfg.MaxPaths > 0 && eng.started > eng.Cfg.MaxPaths {
				eng.stop = true
				eng.report.PathCapHit = true
				eng.active--
				eng.cond.Broadcast()
				return nil
			}
			return p
		}
		if eng.active == 0 {
			eng.cond.Broadcast()
			return nil
		}
		eng.cond.Wait()
	}
}

func (eng *Engine) done() {
	eng.mu.Lock()
	eng.active--
	if eng.active == 0 && len(eng.stack) == 0 {
		eng.cond.Broadcast()
	}
	eng.mu.Unlock()
}

func (eng *Engine) logEvery() int {
	if eng.Cfg.LogEvery > 0 {
		return eng.Cfg.LogEvery
	}
	return 1
}

var logMu sync.Mutex
var traceQ = os.Getenv("GOSYM_TRACEQ") != ""
var traceB = os.Getenv("GOSYM_TRACEQ") == "2"

func (eng *Engine) logQuery(id, script string) {
	logMu.Lock()
	defer logMu.Unlock()
	f, err := os.OpenFile(eng.Cfg.LogQueries, os.O_APPEND|os.O_CREATE|os.O_WRONLY, 0o644)
	if err != nil {
		return
	}
	defer f.Close()
	fmt.Fprintf(f, "; expect %s harness %s\n(reset)\n%s", id, eng.Cfg.Harness, script)
}

// Run explores all paths of the configured harness.
func (eng *Engine) Run(cfg Config) (*Report, error) {
	eng.Cfg = cfg
	if eng.Cfg.StepBudget == 0 {
		eng.Cfg.StepBudget = 2_000_000
	}
	if eng.Cfg.DepthBudget == 0 {
		eng.Cfg.DepthBudget = 400
	}
	if eng.Cfg.SolverBin == "" {
		eng.Cfg.SolverBin = "z3"
	}
	if eng.Cfg.SolverTimeoutMs == 0 {
		eng.Cfg.SolverTimeoutMs = 10000
	}
	if eng.Cfg.Workers == 0 {
		eng.Cfg.Workers = 16
	}
	pkgPath := eng.RepoModule
	if cfg.Pkg != "" && cfg.Pkg != "." {
		pkgPath += "/" + cfg.Pkg
	}
	hp := eng.Prog.ImportedPackage(pkgPath)
	if hp == nil {
		return nil, fmt.Errorf("package %s not loaded", pkgPath)
	}
	eng.harnessPkg = hp
	eng.harnessFn = hp.Func(cfg.Harness)
	if eng.harnessFn == nil {
		return nil, fmt.Errorf("harness %s.%s not found", pkgPath, cfg.Harness)
	}
	// stubs
	eng.stubs = map[*ssa.Function]*ssa.Function{}
	all := eng.allFuncs()
	for real, stub := range cfg.Stubs {
		rf := all[real]
		if rf == nil {
			return nil, fmt.Errorf("stub target %q not found in program", real)
		}
		var sf *ssa.Function
		if i := strings.LastIndex(stub, "."); i >= 0 {
			sp := eng.Prog.ImportedPackage(eng.RepoModule + "/" + stub[:i])
			if sp != nil {
				sf = sp.Func(stub[i+1:])
			}
		} else {
			sf = hp.Func(stub)
		}
		if sf == nil {
			return nil, fmt.Errorf("stub function %q not found", stub)
		}
		eng.stubs[rf] = sf
	}
	eng.intrMu.Lock()
	eng.intrinsics = map[*ssa.Function]Intrinsic{}
	eng.intrMu.Unlock()
	eng.tabulate = map[*ssa.Function]*tabulated{}
	for _, name := range cfg.Tabulate {
		if strings.HasSuffix(name, ".*") {
			// every predicate-like method of the type: receiver and parameters all of that type, one
			// boolean or integer result (a method added to the type later is summarised as well, instead
			// of forking over the whole kind domain at every call)
			prefix := strings.TrimSuffix(name, "*")
			for fname, f := range all {
				if !strings.HasPrefix(fname, prefix) || strings.Contains(fname[len(prefix):], "$") || f.Blocks == nil || f.Signature.Recv() == nil {
					continue
				}
				rt := f.Signature.Recv().Type()
				ok := f.Signature.Results().Len() == 1
				if ok {
					b, isB := f.Signature.Results().At(0).Type().Underlying().(*types.Basic)
					ok = isB && b.Info()&(types.IsBoolean|types.IsInteger) != 0
				}
				if _, isBasic := rt.Underlying().(*types.Basic); !isBasic {
					ok = false
				}
				for i := 0; ok && i < f.Signature.Params().Len(); i++ {
					if !types.Identical(f.Signature.Params().At(i).Type(), rt) {
						ok = false
					}
				}
				if ok {
					eng.tabulate[f] = &tabulated{fn: f}
				}
			}
			continue
		}
		f := all[name]
		if f == nil {
			return nil, fmt.Errorf("tabulate target %q not found", name)
		}
		eng.tabulate[f] = &tabulated{fn: f}
	}
	eng.initAllowed = func(path string) bool {
		if strings.HasPrefix(path, eng.RepoModule) {
			return true
		}
		switch path {
		case "github.com/jsightapi/jsight-schema-go-library/bytes",
			"github.com/jsightapi/jsight-schema-go-library/fs",
			"errors", "strconv", "unicode/utf8", "strings", "bytes", "internal/stringslite",
			"path/filepath", "io/fs", "internal/oserror", "hash/fnv", "net/url", "sort", "io",
			"math/bits", "internal/bytealg", "slices", "cmp", "path", "hash":
			return true
		}
		return false
	}
	rep := &Report{Harness: cfg.Harness, Pkg: cfg.Pkg, Bounds: cfg.Bounds,
		Inconclusive: map[string]int{}, Asserts: map[string]*AssertStat{}, Reach: map[string]int{},
		Funcs: map[string]string{}, MapRangeSites: map[string]bool{}, Notes: map[string]int{}}
	eng.report = rep
	eng.cond = sync.NewCond(&eng.mu)
	eng.stack = nil
	eng.active, eng.started, eng.stop = 0, 0, false
	root := &pending{model: map[string]uint64{}}
	if cfg.Only != "" {
		for _, f := range strings.Split(cfg.Only, ",") {
			var d int64
			fmt.Sscan(f, &d)
			root.prefix = append(root.prefix, d)
		}
		root.model = nil
	}
	eng.stack = append(eng.stack, root)

	if err := eng.bootstrap(); err != nil {
		return nil, err
	}
	start := time.Now()
	eng.runStart = start
	var wg sync.WaitGroup
	var repMu sync.Mutex
	var firstErr error
	for w := 0; w < eng.Cfg.Workers; w++ {
		wg.Add(1)
		go func() {
			defer wg.Done()
			solver, err := NewSolver(eng.Cfg.SolverBin, eng.Cfg.SolverTimeoutMs)
			if err != nil {
				repMu.Lock()
				firstErr = err
				repMu.Unlock()
				return
			}
			solver.KeepSession = eng.Cfg.LogQueries != ""
			defer solver.Close()
			for {
				p := eng.pop()
				if p == nil {
					break
				}
				ex := eng.runPath(solver, p)
				repMu.Lock()
				rep.merge(ex)
				repMu.Unlock()
				eng.done()
			}
			repMu.Lock()
			rep.Queries += solver.Queries
			rep.SolverSat += solver.SatN
			rep.SolverUnsat += solver.UnsatN
			rep.SolverUnknown += solver.UnknownN
			rep.SolverErrors += solver.Errors
			rep.SolverTime += solver.Time
			if solver.Errors > 0 {
				rep.Inconclusive["solver error: "+solver.LastError] += solver.Errors
			}
			repMu.Unlock()
		}()
	}
	wg.Wait()
	rep.Wall = time.Since(start)
	if firstErr != nil {
		return nil, firstErr
	}
	if rep.WallCapHit {
		rep.Inconclusive[fmt.Sprintf("wall-clock cap of %d s reached before the exploration finished (%d paths done)", cfg.MaxWallS, rep.Paths)]++
	}
	if rep.PathCapHit {
		rep.Inconclusive[fmt.Sprintf("path cap %d reached", cfg.MaxPaths)]++
	}
	return rep, nil
}

func (rep *Report) merge(ex *Exec) {
	rep.Paths++
	rep.Steps += int64(ex.steps)
	rep.DomDecided += ex.DomDecided
	if len(ex.asserts) > 0 {
		rep.AssertPaths++
	}
	rep.Violations = append(rep.Violations, ex.violations...)
	for _, s := range ex.incon {
		rep.Inconclusive[s]++
	}
	for id, st := range ex.asserts {
		r := rep.Asserts[id]
		if r == nil {
			r = &AssertStat{}
			rep.Asserts[id] = r
		}
		r.Checked += st.Checked
		r.Trivial += st.Trivial
		r.Discharged += st.Discharged
		r.Violated += st.Violated
		r.Unknown += st.Unknown
		r.Skipped += st.Skipped
	}
	for id, n := range ex.reach {
		rep.Reach[id] += n
	}
	for f, k := range ex.funcs {
		rep.Funcs[f] = k
	}
	for s := range ex.mapRangeSites {
		rep.MapRangeSites[s] = true
	}
	for k, n := range ex.extraNotes {
		rep.Notes[k] += n
	}
	if len(rep.Samples) < 12 {
		rep.Samples = append(rep.Samples, ex.samples...)
	}
	for _, sm := range ex.sampleModels {
		n := 0
		for _, o := range rep.SampleModels {
			if o.Reach == sm.Reach {
				n++
			}
		}
		if n < 3 {
			rep.SampleModels = append(rep.SampleModels, sm)
		}
	}
}

// runPath executes the harness once along the decision prefix of p.
func (eng *Engine) runPath(solver *Solver, p *pending) (ex *Exec) {
	solver.Reset()
	ex = eng.newExec(solver, p)
	return eng.runExec(ex, p)
}

func (eng *Engine) newExec(solver *Solver, p *pending) *Exec {
	ex := &Exec{eng: eng, solver: solver, prefix: p.prefix, model: p.model,
		vars: map[string]uint8{}, nameCount: map[string]int{},
		globals: map[*ssa.Global]*Val{}, initDone: map[*ssa.Package]bool{},
		onceDone: map[*Val]bool{}, notes: map[string]string{},
		asserts: map[string]*AssertStat{}, reach: map[string]int{}, funcs: map[string]string{},
		mapRangeSites: map[string]bool{}, extraNotes: map[string]int{}, locks: map[*Val]int{},
		doms: map[string]*byteDom{}, entangled: map[string]bool{}, uniMemo: map[*Term]*uniInfo{}}
	if ex.model == nil {
		ex.model = map[string]uint64{}
	}
	return ex
}

func (eng *Engine) runExec(ex0 *Exec, p *pending) (ex *Exec) {
	ex = ex0
	needModel := p.model == nil && len(p.prefix) > 0
	ex.needModelAfterPrefix = needModel
	if eng.Cfg.LockMonitor {
		ex.installLockMonitor()
	}
	defer func() {
		r := recover()
		switch r := r.(type) {
		case nil:
		case pathEnd:
			ex.extraNotes["path-ended: "+r.why]++
		case inconclusive:
			msg := r.msg + " at " + ex.site(ex.cur)
			if eng.Cfg.Verbose {
				msg += fmt.Sprintf(" stack %v notes %v", ex.stack(), ex.notes)
			}
			ex.incon = append(ex.incon, msg)
		case budgetExceeded:
			if eng.Cfg.BudgetViolation {
				ex.addViolation("budget", "termination", r.what, ex.model)
			} else {
				msg := "budget: " + r.what
				if eng.Cfg.Verbose {
					msg += fmt.Sprintf(" stack %v notes %v", ex.stack(), ex.notes)
				}
				ex.incon = append(ex.incon, msg)
			}
		case targetPanic:
			msg := r.fault
			if msg == "" {
				msg = "panic: " + ex.panicText(r.v)
			}
			v := Violation{Kind: "panic", ID: "no-panic", Msg: msg, Site: r.site,
				Model: map[string]uint64{}, Harness: eng.Cfg.Harness, Pkg: eng.Cfg.Pkg, Notes: map[string]string{}, Bounds: eng.Cfg.Bounds}
			if len(ex.faults) > 0 && r.fault != "" {
				v.Stack = ex.faults[len(ex.faults)-1].Stack
			}
			for name := range ex.vars {
				v.Model[name] = ex.model[name]
			}
			for k, s := range ex.notes {
				v.Notes[k] = s
			}
			ex.violations = append(ex.violations, v)
		default:
			if eng.Cfg.Verbose {
				panic(r)
			}
			ex.incon = append(ex.incon, fmt.Sprintf("engine error: %v at %s stack %v", r, ex.site(ex.cur), ex.stack()))
		}
	}()
	// package initialisation (concrete)
	ex.call(nil, eng.harnessPkg.Func("init"), nil)
	ex.steps = 0
	ex.call(nil, eng.harnessFn, nil)
	if ex.pos < len(ex.prefix) {
		ex.incon = append(ex.incon, "replay divergence: path ended before its decision prefix was consumed")
	}
	// runtime faults that were recovered and turned into something else
	for _, f := range ex.recovered {
		ex.addViolation("swallowed-fault", "no-swallowed-fault", f.Msg+" recovered at API boundary; raised at "+f.Site, ex.model)
	}
	return ex
}

func (ex *Exec) panicText(v Val) string {
	itf, ok := v.(Iface)
	if !ok {
		return show(v)
	}
	switch p := itf.V.(type) {
	case Str:
		return p.show()
	}
	if itf.T != nil {
		return itf.T.String() + ":" + show(itf.V)
	}
	return "nil"
}

// SortedKeys is a helper for deterministic output.
func SortedKeys[V any](m map[string]V) []string {
	ks := make([]string, 0, len(m))
	for k := range m {
		ks = append(ks, k)
	}
	sort.Strings(ks)
	return ks
}

// lookupMethod finds the method of dynamic type t, nil when absent.
func (eng *Engine) lookupMethod(t types.Type, pkg *types.Package, name string) *ssa.Function {
	sel := eng.Prog.MethodSets.MethodSet(t).Lookup(pkg, name)
	if sel == nil {
		return nil
	}
	return eng.Prog.MethodValue(sel)
}

// DumpSSA prints the SSA of pkg.fn (debugging aid).
func (eng *Engine) DumpSSA(pkg, fn string) {
	p := eng.Prog.ImportedPackage(eng.RepoModule + "/" + pkg)
	if p == nil {
		p = eng.Prog.ImportedPackage(pkg)
	}
	if p == nil {
		fmt.Println("no package")
		return
	}
	f := p.Func(fn)
	if f == nil {
		for name, fn2 := range eng.allFuncs() {
			if strings.Contains(name, fn) && strings.Contains(name, pkg) {
				fn2.WriteTo(os.Stdout)
				for _, an := range fn2.AnonFuncs {
					an.WriteTo(os.Stdout)
				}
			}
		}
		return
	}
	f.WriteTo(os.Stdout)
	for _, an := range f.AnonFuncs {
		an.WriteTo(os.Stdout)
	}
}
