package sym

import "fmt"

// Lock-discipline monitor (Eraser-style lockset, but path-complete): objects
// registered with verifrt.Track are structs that carry their own mutex; every
// access to another field of such a struct (or to the map / slice storage a
// field refers to) must happen with that mutex held in the right mode.

type tracked struct {
	cell   *Val   // the struct cell
	fields []*Val // addresses of its fields
	mutex  map[*Val]bool
}

// lock state per mutex cell: 0 free, -1 write-held, n>0 n readers.
func (ex *Exec) lockOp(m Val, op string) {
	cell, ok := m.(*Val)
	if !ok || cell == nil {
		ex.targetPanic("runtime error: invalid memory address or nil pointer dereference")
	}
	st := ex.locks[cell]
	for _, t := range ex.trackedObjs {
		for _, f := range t.fields {
			if f == cell {
				t.mutex[cell] = true
			}
		}
	}
	switch op {
	case "Lock":
		if st != 0 {
			ex.addViolation("lock", "no-self-deadlock", fmt.Sprintf("Lock on a mutex already held (state %d): self-deadlock", st), ex.model)
			panic(pathEnd{"deadlock"})
		}
		ex.locks[cell] = -1
	case "Unlock":
		if st != -1 {
			ex.targetPanic("fatal error: sync: unlock of unlocked mutex")
		}
		ex.locks[cell] = 0
	case "RLock":
		if st == -1 {
			ex.addViolation("lock", "no-self-deadlock", "RLock on a mutex write-held by the same goroutine: self-deadlock", ex.model)
			panic(pathEnd{"deadlock"})
		}
		ex.locks[cell] = st + 1
	case "RUnlock":
		if st <= 0 {
			ex.targetPanic("fatal error: sync: RUnlock of unlocked RWMutex")
		}
		ex.locks[cell] = st - 1
	}
}

func (ex *Exec) trackObject(v Val) {
	if itf, isI := v.(Iface); isI {
		v = itf.V
	}
	p, ok := v.(*Val)
	if !ok || p == nil {
		panic(inconclusive{"Track needs a non-nil pointer to a struct"})
	}
	s, ok := (*p).(StructV)
	if !ok {
		panic(inconclusive{"Track needs a pointer to a struct"})
	}
	t := &tracked{cell: p, mutex: map[*Val]bool{}}
	for i := range s {
		t.fields = append(t.fields, &s[i])
		// a mutex field is a struct of integers (sync.Mutex / sync.RWMutex)
	}
	ex.trackedObjs = append(ex.trackedObjs, t)
}

func (ex *Exec) installLockMonitor() {
	ex.memHook = func(p *Val, write bool) {
		if !ex.lockMonitorOn || len(ex.trackedObjs) == 0 {
			return
		}
		for _, t := range ex.trackedObjs {
			for _, f := range t.fields {
				if t.mutex[f] {
					continue
				}
				if f == p {
					ex.checkHeld(t, write, "field")
					return
				}
				if sl, ok := (*f).(SliceV); ok {
					full := sl.A[:cap(sl.A)]
					for i := range full {
						if &full[i] == p {
							ex.checkHeld(t, write, "slice element")
							return
						}
					}
				}
			}
		}
	}
	ex.memHookMap = func(m *MapV, write bool) {
		if !ex.lockMonitorOn || len(ex.trackedObjs) == 0 {
			return
		}
		for _, t := range ex.trackedObjs {
			for _, f := range t.fields {
				if mv, ok := (*f).(*MapV); ok && mv == m && m != nil {
					ex.checkHeld(t, write, "map")
					return
				}
			}
		}
	}
}

func (ex *Exec) checkHeld(t *tracked, write bool, what string) {
	held := 0
	known := false
	for _, f := range t.fields {
		// a field is the mutex if it has ever been locked, or if it is still unused we look at lock table
		if st, ok := ex.locks[f]; ok {
			known = true
			if st != 0 {
				held = st
			}
		}
	}
	_ = known
	if held == 0 {
		kind := "read"
		if write {
			kind = "write"
		}
		ex.addViolation("lock", "lock-discipline", fmt.Sprintf("%s of guarded %s without holding the collection's mutex", kind, what), ex.model)
		return
	}
	if write && held != -1 {
		ex.addViolation("lock", "lock-discipline", fmt.Sprintf("write of guarded %s while holding only a read lock", what), ex.model)
	}
}
