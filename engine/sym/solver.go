package sym

import (
	"bufio"
	"fmt"
	"io"
	"os/exec"
	"strconv"
	"strings"
	"time"
)

// Result of a satisfiability query.
type Result int

const (
	Unsat Result = iota
	Sat
	Unknown
)

func (r Result) String() string { return [...]string{"unsat", "sat", "unknown"}[r] }

// Solver is one long-lived SMT solver process (z3 -in) with a per-path session.
type Solver struct {
	cmd       *exec.Cmd
	in        io.WriteCloser
	out       *bufio.Reader
	Bin       string
	TimeoutMs int

	names    map[*Term]string
	declared map[string]bool
	nextID   int
	buf      strings.Builder

	// statistics
	Queries   int
	SatN      int
	UnsatN    int
	UnknownN  int
	Errors    int
	Time      time.Duration
	LastError string

	// optional log of standalone assertion queries
	session     strings.Builder // all level-0 commands of the current session (decls, defs, asserts)
	KeepSession bool
}

func NewSolver(bin string, timeoutMs int) (*Solver, error) {
	s := &Solver{Bin: bin, TimeoutMs: timeoutMs}
	if err := s.start(); err != nil {
		return nil, err
	}
	return s, nil
}

func (s *Solver) start() error {
	args := []string{"-in"}
	if strings.Contains(s.Bin, "cvc5") {
		args = []string{"--incremental", "--lang=smt2", "--produce-models"}
	}
	s.cmd = exec.Command(s.Bin, args...)
	in, err := s.cmd.StdinPipe()
	if err != nil {
		return err
	}
	out, err := s.cmd.StdoutPipe()
	if err != nil {
		return err
	}
	s.cmd.Stderr = s.cmd.Stdout
	if err := s.cmd.Start(); err != nil {
		return err
	}
	s.in = in
	s.out = bufio.NewReaderSize(out, 1<<16)
	s.Reset()
	return nil
}

func (s *Solver) Close() {
	if s.cmd != nil {
		s.in.Close()
		s.cmd.Process.Kill()
		s.cmd.Wait()
		s.cmd = nil
	}
}

func (s *Solver) restart() {
	s.Close()
	if err := s.start(); err != nil {
		panic(inconclusive{"solver restart failed: " + err.Error()})
	}
}

// Reset starts a fresh session (new path).
func (s *Solver) Reset() {
	s.names = map[*Term]string{}
	s.declared = map[string]bool{}
	s.nextID = 0
	s.buf.Reset()
	s.session.Reset()
	s.emit0("(reset)\n")
	s.emit0("(set-option :produce-models true)\n")
	if strings.Contains(s.Bin, "cvc5") {
		s.emit0("(set-logic ALL)\n")
		s.emit0(fmt.Sprintf("(set-option :tlimit-per %d)\n", s.TimeoutMs))
	} else {
		s.emit0(fmt.Sprintf("(set-option :timeout %d)\n", s.TimeoutMs))
	}
}

func (s *Solver) emit0(str string) {
	s.buf.WriteString(str)
	if s.KeepSession && !strings.HasPrefix(str, "(reset)") {
		s.session.WriteString(str)
	}
}

// ref returns the SMT text that references t, emitting definitions as needed.
func (s *Solver) ref(t *Term) string {
	switch t.Op {
	case OpConst:
		return constSMT(t)
	case OpVar:
		n := smtName(t.Name)
		if !s.declared[t.Name] {
			s.declared[t.Name] = true
			s.emit0(fmt.Sprintf("(declare-const %s %s)\n", n, sortSMT(t.W)))
		}
		return n
	}
	if n, ok := s.names[t]; ok {
		return n
	}
	args := make([]string, len(t.A))
	for i, a := range t.A {
		args[i] = s.ref(a)
	}
	var body string
	switch t.Op {
	case OpZExt:
		body = fmt.Sprintf("((_ zero_extend %d) %s)", t.W-t.A[0].W, args[0])
	case OpSExt:
		body = fmt.Sprintf("((_ sign_extend %d) %s)", t.W-t.A[0].W, args[0])
	case OpTrunc:
		body = fmt.Sprintf("((_ extract %d 0) %s)", t.W-1, args[0])
	default:
		body = "(" + opSMT[t.Op] + " " + strings.Join(args, " ") + ")"
	}
	s.nextID++
	n := "t" + strconv.Itoa(s.nextID)
	s.emit0(fmt.Sprintf("(define-fun %s () %s %s)\n", n, sortSMT(t.W), body))
	s.names[t] = n
	return n
}

// Assert adds t to the session permanently (level 0).
func (s *Solver) Assert(t *Term) {
	if t.IsTrue() {
		return
	}
	r := s.ref(t)
	s.emit0("(assert " + r + ")\n")
}

func (s *Solver) flush() {
	if s.buf.Len() == 0 {
		return
	}
	io.WriteString(s.in, s.buf.String())
	s.buf.Reset()
}

func (s *Solver) readLine() string {
	line, err := s.out.ReadString('\n')
	if err != nil {
		s.LastError = "solver died: " + err.Error()
		s.Errors++
		return "(error \"solver died\")"
	}
	return strings.TrimSpace(line)
}

// Check asks whether session ∧ extra is satisfiable.
func (s *Solver) Check(extra *Term) Result {
	r, _ := s.check(extra, nil)
	return r
}

// CheckModel is Check that also returns values for the given variables on sat.
func (s *Solver) CheckModel(extra *Term, vars map[string]uint8) (Result, map[string]uint64) {
	return s.check(extra, vars)
}

func (s *Solver) check(extra *Term, vars map[string]uint8) (Result, map[string]uint64) {
	start := time.Now()
	defer func() { s.Time += time.Since(start) }()
	s.Queries++
	var r string
	if extra != nil && !extra.IsTrue() {
		r = s.ref(extra)
	}
	for name, w := range vars { // make sure all are declared
		s.ref(&Term{Op: OpVar, W: w, Name: name})
	}
	s.buf.WriteString("(push 1)\n")
	if r != "" {
		s.buf.WriteString("(assert " + r + ")\n")
	}
	s.buf.WriteString("(check-sat)\n")
	s.flush()
	res := Unknown
	sawErr := false
	for {
		line := s.readLine()
		if strings.HasPrefix(line, "(error") {
			sawErr = true
			s.Errors++
			s.LastError = line
			if strings.Contains(line, "solver died") {
				s.restart()
				return Unknown, nil
			}
			continue
		}
		switch line {
		case "sat":
			res = Sat
		case "unsat":
			res = Unsat
		case "unknown", "timeout":
			res = Unknown
		default:
			continue
		}
		break
	}
	if sawErr {
		res = Unknown
	}
	var model map[string]uint64
	if res == Sat && len(vars) > 0 {
		model = s.getValues(vars)
		if model == nil {
			res = Unknown
		}
	}
	s.buf.WriteString("(pop 1)\n")
	switch res {
	case Sat:
		s.SatN++
	case Unsat:
		s.UnsatN++
	default:
		s.UnknownN++
	}
	return res, model
}

func (s *Solver) getValues(vars map[string]uint8) map[string]uint64 {
	var names []string
	for n := range vars {
		names = append(names, smtName(n))
	}
	s.buf.WriteString("(get-value (" + strings.Join(names, " ") + "))\n")
	s.flush()
	depth := 0
	var sb strings.Builder
	started := false
	for {
		line := s.readLine()
		if strings.HasPrefix(line, "(error") {
			s.Errors++
			s.LastError = line
			return nil
		}
		inBar := false
		for _, c := range line {
			switch {
			case c == '|':
				inBar = !inBar
			case inBar:
			case c == '(':
				depth++
				started = true
			case c == ')':
				depth--
			}
		}
		sb.WriteString(line)
		sb.WriteByte(' ')
		if started && depth == 0 {
			break
		}
	}
	return parseValues(sb.String())
}

// parseValues parses ((|a| #x01) (|b| true) (c (_ bv3 7))).
func parseValues(str string) map[string]uint64 {
	m := map[string]uint64{}
	i := 0
	n := len(str)
	skip := func() {
		for i < n && (str[i] == ' ' || str[i] == '\n' || str[i] == '\t') {
			i++
		}
	}
	skip()
	if i >= n || str[i] != '(' {
		return nil
	}
	i++
	for {
		skip()
		if i >= n {
			return nil
		}
		if str[i] == ')' {
			break
		}
		if str[i] != '(' {
			return nil
		}
		i++
		skip()
		var name string
		if str[i] == '|' {
			j := strings.IndexByte(str[i+1:], '|')
			name = str[i+1 : i+1+j]
			i = i + 1 + j + 1
		} else {
			j := i
			for j < n && str[j] != ' ' && str[j] != ')' {
				j++
			}
			name = str[i:j]
			i = j
		}
		skip()
		var val uint64
		switch {
		case strings.HasPrefix(str[i:], "#x"):
			j := i + 2
			for j < n && isHex(str[j]) {
				j++
			}
			v, _ := strconv.ParseUint(str[i+2:j], 16, 64)
			val = v
			i = j
		case strings.HasPrefix(str[i:], "#b"):
			j := i + 2
			for j < n && (str[j] == '0' || str[j] == '1') {
				j++
			}
			v, _ := strconv.ParseUint(str[i+2:j], 2, 64)
			val = v
			i = j
		case strings.HasPrefix(str[i:], "true"):
			val = 1
			i += 4
		case strings.HasPrefix(str[i:], "false"):
			val = 0
			i += 5
		case strings.HasPrefix(str[i:], "(_ bv"):
			j := i + 5
			k := j
			for k < n && str[k] >= '0' && str[k] <= '9' {
				k++
			}
			v, _ := strconv.ParseUint(str[j:k], 10, 64)
			val = v
			for k < n && str[k] != ')' {
				k++
			}
			i = k + 1
		default:
			return nil
		}
		skip()
		if i >= n || str[i] != ')' {
			return nil
		}
		i++
		m[name] = val
	}
	return m
}

func isHex(c byte) bool {
	return (c >= '0' && c <= '9') || (c >= 'a' && c <= 'f') || (c >= 'A' && c <= 'F')
}

// Script returns a standalone SMT-LIB script of the session plus the extra assertion.
func (s *Solver) Script(extra *Term) string {
	r := ""
	if extra != nil && !extra.IsTrue() {
		r = s.ref(extra)
	}
	var sb strings.Builder
	sb.WriteString("(set-logic QF_BV)\n")
	for _, line := range strings.Split(s.session.String(), "\n") {
		if line == "" || strings.HasPrefix(line, "(set-option") {
			continue
		}
		sb.WriteString(line + "\n")
	}
	if r != "" {
		sb.WriteString("(assert " + r + ")\n")
	}
	sb.WriteString("(check-sat)\n")
	return sb.String()
}
