package sym

import (
	"encoding/json"
	"fmt"
	"go/types"
	"math"
	"strconv"
	"strings"
	"unicode/utf8"

	"golang.org/x/tools/go/ssa"
)

func (eng *Engine) intrinsicFor(fn *ssa.Function) Intrinsic {
	eng.intrMu.Lock()
	in, ok := eng.intrinsics[fn]
	eng.intrMu.Unlock()
	if ok {
		return in
	}
	in = eng.resolveIntrinsic(fn)
	eng.intrMu.Lock()
	eng.intrinsics[fn] = in
	eng.intrMu.Unlock()
	return in
}

func (eng *Engine) resolveIntrinsic(fn *ssa.Function) Intrinsic {
	if tab, ok := eng.tabulate[fn]; ok {
		return tab.call
	}
	pkg := fn.Pkg
	if pkg == nil && fn.Origin() != nil {
		pkg = fn.Origin().Pkg
	}
	name := fn.String()
	if pkg != nil {
		path := pkg.Pkg.Path()
		// package initialisers
		if fn.Name() == "init" && fn.Parent() == nil && fn == pkg.Func("init") {
			return func(ex *Exec, fr *frame, args []Val) Val {
				ex.runInit(pkg, fn)
				return nil
			}
		}
		if strings.HasSuffix(path, "/internal/verifrt") {
			in := eng.verifrtIntrinsic(fn.Name())
			if in == nil {
				return func(ex *Exec, fr *frame, args []Val) Val {
					panic(inconclusive{"verifrt." + fn.Name() + " has no symbolic implementation"})
				}
			}
			return in
		}
	}
	if in, ok := intrinsicTable[name]; ok {
		return in
	}
	return nil
}

// runInit runs (or skips) a package initialiser according to the init policy.
func (ex *Exec) runInit(pkg *ssa.Package, fn *ssa.Function) {
	path := pkg.Pkg.Path()
	shared := ex.eng.sharedInit(path)
	perPath := ex.eng.perPathInit(path)
	if ex.initDone[pkg] {
		return
	}
	switch {
	case ex.boot && shared, !ex.boot && perPath:
		ex.initDone[pkg] = true
		ex.runBody(fn)
	case !ex.boot && shared:
		ex.initDone[pkg] = true // initialised by the bootstrap run
	case ex.boot && perPath:
		// walk through to reach shared dependencies: run nothing here; the bootstrap
		// iterates over all packages explicitly.
	default:
		// package outside the encoded set: its globals are unavailable
	}
}

// runBody interprets fn's own body (bypassing intrinsic lookup).
func (ex *Exec) runBody(fn *ssa.Function) {
	ex.depth++
	fr := &frame{ex: ex, caller: ex.cur, fn: fn}
	fr.env = make(map[ssa.Value]Val, 16)
	fr.block = fn.Blocks[0]
	fr.locals = make([]Val, len(fn.Locals))
	for i, l := range fn.Locals {
		fr.locals[i] = zero(deref(l.Type()))
		fr.env[l] = &fr.locals[i]
	}
	saved := ex.cur
	ex.cur = fr
	for fr.block != nil {
		ex.runFrame(fr)
	}
	ex.cur = saved
	ex.depth--
}

func (eng *Engine) perPathInit(path string) bool {
	if strings.HasPrefix(path, eng.RepoModule) {
		return true
	}
	if eng.Cfg.FullSchemaLib && strings.HasPrefix(path, "github.com/jsightapi/jsight-schema-go-library") {
		return true
	}
	switch path {
	case "github.com/jsightapi/jsight-schema-go-library/bytes",
		"github.com/jsightapi/jsight-schema-go-library/fs":
		return true
	}
	return false
}

func (eng *Engine) sharedInit(path string) bool {
	switch path {
	case "errors", "strconv", "unicode/utf8", "strings", "bytes", "internal/stringslite",
		"path/filepath", "internal/filepathlite", "io/fs", "internal/oserror", "hash/fnv", "net/url", "sort", "io",
		"math/bits", "slices", "cmp", "path", "hash", "unicode/utf16", "internal/itoa", "internal/byteorder",
		"unicode", "regexp/syntax", "regexp", "time", "math/rand", "net/mail", "mime", "encoding/base64", "encoding/binary", "net/textproto":
		return true
	}
	return false
}

var intrinsicTable map[string]Intrinsic

func init() {
	intrinsicTable = map[string]Intrinsic{
		"strings.Index":                        inIndex,
		"bytes.Index":                          inIndex,
		"internal/bytealg.Index":               inIndex,
		"internal/bytealg.IndexString":         inIndex,
		"internal/stringslite.Index":           inIndex,
		"strings.Contains":                     inContains,
		"bytes.Contains":                       inContains,
		"strings.IndexByte":                    inIndexByte,
		"bytes.IndexByte":                      inIndexByte,
		"internal/bytealg.IndexByte":           inIndexByte,
		"internal/bytealg.IndexByteString":     inIndexByte,
		"internal/stringslite.IndexByte":       inIndexByte,
		"strings.LastIndexByte":                inLastIndexByte,
		"bytes.LastIndexByte":                  inLastIndexByte,
		"internal/bytealg.LastIndexByte":       inLastIndexByte,
		"internal/bytealg.LastIndexByteString": inLastIndexByte,
		"strings.Count":                        inCount,
		"bytes.Count":                          inCount,
		"internal/bytealg.Count":               inCountByte,
		"internal/bytealg.CountString":         inCountByte,
		"bytes.Equal":                          inBytesEqual,
		"internal/bytealg.Equal":               inBytesEqual,
		// math on concrete floats (the schema library's number constraints); math's own init needs internal/cpu
		"math.Min": func(ex *Exec, fr *frame, args []Val) Val {
			return FloatV(math.Min(float64(args[0].(FloatV)), float64(args[1].(FloatV))))
		},
		"math.Max": func(ex *Exec, fr *frame, args []Val) Val {
			return FloatV(math.Max(float64(args[0].(FloatV)), float64(args[1].(FloatV))))
		},
		"math.Floor": func(ex *Exec, fr *frame, args []Val) Val { return FloatV(math.Floor(float64(args[0].(FloatV)))) },
		"math.Ceil":  func(ex *Exec, fr *frame, args []Val) Val { return FloatV(math.Ceil(float64(args[0].(FloatV)))) },
		"math.Trunc": func(ex *Exec, fr *frame, args []Val) Val { return FloatV(math.Trunc(float64(args[0].(FloatV)))) },
		"math.Abs":   func(ex *Exec, fr *frame, args []Val) Val { return FloatV(math.Abs(float64(args[0].(FloatV)))) },
		"math.Pow": func(ex *Exec, fr *frame, args []Val) Val {
			return FloatV(math.Pow(float64(args[0].(FloatV)), float64(args[1].(FloatV))))
		},
		"math.Log10": func(ex *Exec, fr *frame, args []Val) Val { return FloatV(math.Log10(float64(args[0].(FloatV)))) },
		"math.IsNaN": func(ex *Exec, fr *frame, args []Val) Val { return Bool(math.IsNaN(float64(args[0].(FloatV)))) },
		"math.IsInf": func(ex *Exec, fr *frame, args []Val) Val {
			return Bool(math.IsInf(float64(args[0].(FloatV)), int(ex.concreteInt(args[1], "IsInf"))))
		},
		// the process environment is not an input of any property: every variable reads as unset
		"os.Getenv":      func(ex *Exec, fr *frame, args []Val) Val { return mkStr("") },
		"syscall.Getenv": func(ex *Exec, fr *frame, args []Val) Val { return Tuple{mkStr(""), False} },
		// the local time zone is an environment input: UTC (as with TZ="")
		"time.initLocal": func(ex *Exec, fr *frame, args []Val) Val {
			g := ex.eng.Prog.ImportedPackage("time").Members["localLoc"].(*ssa.Global)
			cell := ex.global(g)
			st := (*cell).(StructV)
			st[0] = mkStr("UTC")
			return nil
		},
		"time.runtimeNano": func(ex *Exec, fr *frame, args []Val) Val { return Const(64, 1) },
		// the wall clock is an environment input (in the unchanged code its only use is the default seed of
		// the regex example generator, which the library then overrides with a fixed seed)
		"time.now": func(ex *Exec, fr *frame, args []Val) Val {
			// every reading of the clock gives a later instant (as in a real process): a result that depends
			// on the clock differs between two runs of a self-composition harness, and natively too
			ex.clockReads++
			k := uint64(ex.clockReads)
			return Tuple{Const(64, 1700000000+k*7), Const(32, (k*123456789)%1000000000), Const(64, 1+k*7123456789)}
		},
		// json.Unmarshal of a concrete JSON string literal into a *string (schema library: regex constraint)
		"encoding/json.Unmarshal": func(ex *Exec, fr *frame, args []Val) Val {
			data, ok := toStr(args[0].(SliceV)).concrete()
			itf, isI := args[1].(Iface)
			if !ok || !isI {
				panic(inconclusive{"json.Unmarshal: symbolic data or unsupported target"})
			}
			ptr, isP := itf.V.(*Val)
			pt, isPT := itf.T.(*types.Pointer)
			if !isP || !isPT || !types.Identical(pt.Elem(), types.Typ[types.String]) {
				panic(inconclusive{"json.Unmarshal: only *string targets are encoded"})
			}
			var out string
			if err := json.Unmarshal([]byte(data), &out); err != nil {
				panic(inconclusive{"json.Unmarshal: error result not encoded: " + err.Error()})
			}
			ex.store(ptr, mkStr(out))
			return Iface{}
		},
		"internal/bytealg.MakeNoZero": func(ex *Exec, fr *frame, args []Val) Val {
			n := ex.concreteInt(args[0], "MakeNoZero")
			cells := make([]Val, n)
			for i := range cells {
				cells[i] = byteConsts[0]
			}
			return SliceV{A: cells}
		},
		"fmt.Fprintf":                     inFprintf,
		"unicode/utf8.DecodeRuneInString": inUTF8Decode,
		"unicode/utf8.DecodeRune":         inUTF8Decode,
		"unicode/utf8.ValidString":        inUTF8Valid,
		"unicode/utf8.Valid":              inUTF8Valid,
		"unicode/utf8.RuneCountInString":  inUTF8RuneCount,
		"unicode/utf8.RuneCount":          inUTF8RuneCount,
		"unicode/utf8.AppendRune":         inUTF8AppendRune,
		"unicode/utf8.RuneLen":            inUTF8RuneLen,
		"(*strings.Builder).WriteString":  inBuilderWriteString,
		"(*strings.Builder).Write":        inBuilderWriteString,
		"(*strings.Builder).WriteByte":    inBuilderWriteByte,
		"(*strings.Builder).WriteRune":    inBuilderWriteRune,
		"(*strings.Builder).String":       inBuilderString,
		"(*strings.Builder).Len":          inBuilderLen,
		"(*strings.Builder).Grow":         func(ex *Exec, fr *frame, args []Val) Val { return nil },
		"(*strings.Builder).Reset": func(ex *Exec, fr *frame, args []Val) Val {
			b := (*args[0].(*Val)).(StructV)
			b[1] = SliceV{Nil: true}
			return nil
		},
		"strings.Clone":              func(ex *Exec, fr *frame, args []Val) Val { return args[0] },
		"internal/stringslite.Clone": func(ex *Exec, fr *frame, args []Val) Val { return args[0] },
		"fmt.Sprintf":                inSprintf,
		"fmt.Errorf":                 inErrorf,
		"fmt.Sprint":                 inSprint,
		"errors.Is":                  inErrorsIs,
		"errors.As":                  inErrorsAs,

		"(*sync.Mutex).Lock":      func(ex *Exec, fr *frame, args []Val) Val { ex.lockOp(args[0], "Lock"); return nil },
		"(*sync.Mutex).Unlock":    func(ex *Exec, fr *frame, args []Val) Val { ex.lockOp(args[0], "Unlock"); return nil },
		"(*sync.RWMutex).Lock":    func(ex *Exec, fr *frame, args []Val) Val { ex.lockOp(args[0], "Lock"); return nil },
		"(*sync.RWMutex).Unlock":  func(ex *Exec, fr *frame, args []Val) Val { ex.lockOp(args[0], "Unlock"); return nil },
		"(*sync.RWMutex).RLock":   func(ex *Exec, fr *frame, args []Val) Val { ex.lockOp(args[0], "RLock"); return nil },
		"(*sync.RWMutex).RUnlock": func(ex *Exec, fr *frame, args []Val) Val { ex.lockOp(args[0], "RUnlock"); return nil },
		"(*sync.Once).Do": func(ex *Exec, fr *frame, args []Val) Val {
			p := args[0].(*Val)
			if ex.onceDone[p] {
				return nil
			}
			ex.onceDone[p] = true
			ex.inOnce++
			ex.call(fr, args[1], nil)
			ex.inOnce--
			return nil
		},
		"internal/reflectlite.TypeOf": func(ex *Exec, fr *frame, args []Val) Val {
			return Iface{T: opaqueType, V: &Opaque{Kind: "rtype"}}
		},
		"(*sync.Map).Load": func(ex *Exec, fr *frame, args []Val) Val {
			m := ex.syncMap(args[0])
			v, ok := ex.mapLookup(m, args[1])
			if v == nil {
				v = Iface{}
			}
			return Tuple{v, ok}
		},
		"(*sync.Map).Store": func(ex *Exec, fr *frame, args []Val) Val {
			ex.noteSharedWrite(args[0], "sync.Map.Store")
			ex.mapUpdate(ex.syncMap(args[0]), args[1], args[2])
			return nil
		},
		"(*sync.Map).LoadOrStore": func(ex *Exec, fr *frame, args []Val) Val {
			m := ex.syncMap(args[0])
			v, ok := ex.mapLookup(m, args[1])
			if ex.branch(ok) {
				return Tuple{v, True}
			}
			ex.noteSharedWrite(args[0], "sync.Map.LoadOrStore")
			ex.mapUpdate(m, args[1], args[2])
			return Tuple{args[2], False}
		},
		"(*sync.Map).Delete": func(ex *Exec, fr *frame, args []Val) Val {
			ex.noteSharedWrite(args[0], "sync.Map.Delete")
			ex.mapDelete(ex.syncMap(args[0]), args[1])
			return nil
		},
		"(*sync.Map).Range": func(ex *Exec, fr *frame, args []Val) Val {
			m := ex.syncMap(args[0])
			for _, e := range append([]mapEntry(nil), m.Entries...) {
				if !ex.branch(ex.call(fr, args[1], []Val{e.K, e.V}).(*Term)) {
					break
				}
			}
			return nil
		},
		// sync.Pool as one goroutine sees it when nothing else runs: Get hands back the object Put last
		// (the per-P private slot), otherwise New(). Stale-state and use-after-Put mistakes are thereby
		// visible to a sequential harness, and reproduce natively in a single goroutine.
		"(*sync.Pool).Get": func(ex *Exec, fr *frame, args []Val) Val {
			pc := args[0].(*Val)
			if l := ex.pools[pc]; len(l) > 0 {
				v := l[len(l)-1]
				ex.pools[pc] = l[:len(l)-1]
				return v
			}
			p := (*args[0].(*Val)).(StructV)
			nf := p[len(p)-1] // the New field
			switch f := nf.(type) {
			case *ssa.Function:
				if f == nil {
					return Iface{}
				}
			}
			return ex.call(fr, nf, nil)
		},
		"(*sync.Pool).Put": func(ex *Exec, fr *frame, args []Val) Val {
			if itf, ok := args[1].(Iface); ok && itf.T == nil {
				return nil
			}
			if ex.pools == nil {
				ex.pools = map[*Val][]Val{}
			}
			pc := args[0].(*Val)
			ex.pools[pc] = append(ex.pools[pc], args[1])
			return nil
		},
		"regexp.MustCompile": func(ex *Exec, fr *frame, args []Val) Val {
			pat := concreteStr(args[0], "regexp pattern")
			if pat != `\s+` {
				// any other pattern: interpret the real regexp package (needs its initialisers: shared init set)
				ex.runBodyArgs(ex.eng.funcByName("regexp", "MustCompile"), args)
				return ex.lastResult
			}
			cell := new(Val)
			*cell = &Opaque{Kind: "regexp", Data: pat}
			return cell
		},
		"(*regexp.Regexp).ReplaceAllString": inRegexpReplaceAllString,
		"unicode.IsSpace":                   inUnicodeIsSpace,
		"strconv.Quote": func(ex *Exec, fr *frame, args []Val) Val {
			return quoteStr(args[0].(Str))
		},
		"strconv.Itoa": func(ex *Exec, fr *frame, args []Val) Val {
			return mkStr(strconv.FormatInt(ex.concreteInt(args[0], "Itoa"), 10))
		},
		"strconv.FormatUint": func(ex *Exec, fr *frame, args []Val) Val {
			v := ex.concretize(args[0].(*Term), "FormatUint")
			return mkStr(strconv.FormatUint(v, int(ex.concreteInt(args[1], "base"))))
		},
		"strconv.FormatInt": func(ex *Exec, fr *frame, args []Val) Val {
			v := ex.concreteInt(args[0], "FormatInt")
			return mkStr(strconv.FormatInt(v, int(ex.concreteInt(args[1], "base"))))
		},
	}
}

func toStr(v Val) Str {
	switch v := v.(type) {
	case Str:
		return v
	case SliceV:
		r := make(Str, len(v.A))
		for i, c := range v.A {
			r[i] = c.(*Term)
		}
		return r
	}
	panic(inconclusive{fmt.Sprintf("expected string or []byte, got %T", v)})
}

// matchAt returns the term "s[i:i+len(sep)] == sep".
func matchAt(s, sep Str, i int) *Term {
	r := True
	for j := range sep {
		r = And(r, Eq(s[i+j], sep[j]))
		if r.IsFalse() {
			return False
		}
	}
	return r
}

func inIndex(ex *Exec, fr *frame, args []Val) Val {
	s, sep := toStr(args[0]), toStr(args[1])
	n := len(s) - len(sep)
	r := Const(64, ^uint64(0))
	for i := n; i >= 0; i-- {
		r = Ite(matchAt(s, sep, i), Const(64, uint64(i)), r)
	}
	return r
}

func inContains(ex *Exec, fr *frame, args []Val) Val {
	s, sep := toStr(args[0]), toStr(args[1])
	r := False
	for i := 0; i+len(sep) <= len(s); i++ {
		r = Or(r, matchAt(s, sep, i))
	}
	return r
}

func inIndexByte(ex *Exec, fr *frame, args []Val) Val {
	s := toStr(args[0])
	c := args[1].(*Term)
	r := Const(64, ^uint64(0))
	for i := len(s) - 1; i >= 0; i-- {
		r = Ite(Eq(s[i], c), Const(64, uint64(i)), r)
	}
	return r
}

func inLastIndexByte(ex *Exec, fr *frame, args []Val) Val {
	s := toStr(args[0])
	c := args[1].(*Term)
	r := Const(64, ^uint64(0))
	for i := 0; i < len(s); i++ {
		r = Ite(Eq(s[i], c), Const(64, uint64(i)), r)
	}
	return r
}

func inCountByte(ex *Exec, fr *frame, args []Val) Val {
	s := toStr(args[0])
	c := args[1].(*Term)
	r := Const(64, 0)
	for i := range s {
		r = Bin(OpAdd, r, Ite(Eq(s[i], c), Const(64, 1), Const(64, 0)))
	}
	return r
}

func inCount(ex *Exec, fr *frame, args []Val) Val {
	s, sep := toStr(args[0]), toStr(args[1])
	if len(sep) == 0 {
		cs, ok := s.concrete()
		if !ok {
			// number of runes + 1: fall back to byte count for ASCII-only is unsound; be honest
			panic(inconclusive{"Count with empty separator on symbolic string"})
		}
		return Const(64, uint64(utf8.RuneCountInString(cs)+1))
	}
	if len(sep) == 1 {
		return inCountByte(ex, fr, []Val{s, sep[0]})
	}
	// non-overlapping count: sequential scan with forks
	n := 0
	i := 0
	for i+len(sep) <= len(s) {
		if ex.branch(matchAt(s, sep, i)) {
			n++
			i += len(sep)
		} else {
			i++
		}
	}
	return Const(64, uint64(n))
}

func inBytesEqual(ex *Exec, fr *frame, args []Val) Val {
	return ex.equal(toStr(args[0]), toStr(args[1]))
}

// ---- strings.Builder ----

func builderBuf(ex *Exec, args []Val) (StructV, SliceV) {
	p := args[0].(*Val)
	if p == nil {
		ex.targetPanic("runtime error: invalid memory address or nil pointer dereference")
	}
	b := (*p).(StructV)
	return b, b[1].(SliceV)
}

func inBuilderWriteString(ex *Exec, fr *frame, args []Val) Val {
	b, buf := builderBuf(ex, args)
	s := toStr(args[1])
	cells := append([]Val(nil), buf.A...)
	for _, c := range s {
		cells = append(cells, c)
	}
	b[1] = SliceV{A: cells}
	return Tuple{Const(64, uint64(len(s))), Iface{}}
}

func inBuilderWriteByte(ex *Exec, fr *frame, args []Val) Val {
	b, buf := builderBuf(ex, args)
	cells := append([]Val(nil), buf.A...)
	cells = append(cells, args[1])
	b[1] = SliceV{A: cells}
	return Iface{}
}

func inBuilderWriteRune(ex *Exec, fr *frame, args []Val) Val {
	r := args[1].(*Term)
	var s Str
	if r.IsConst() {
		s = mkStr(string(rune(r.Signed())))
	} else {
		s = ex.encodeRuneSym(r)
	}
	b, buf := builderBuf(ex, args)
	cells := append([]Val(nil), buf.A...)
	for _, c := range s {
		cells = append(cells, c)
	}
	b[1] = SliceV{A: cells}
	return Tuple{Const(64, uint64(len(s))), Iface{}}
}

func inBuilderString(ex *Exec, fr *frame, args []Val) Val {
	_, buf := builderBuf(ex, args)
	return toStr(buf)
}

func inBuilderLen(ex *Exec, fr *frame, args []Val) Val {
	_, buf := builderBuf(ex, args)
	return Const(64, uint64(len(buf.A)))
}

// ---- fmt ----

func quoteStr(s Str) Str {
	if cs, ok := s.concrete(); ok {
		return mkStr(strconv.Quote(cs))
	}
	// symbolic content: the exact escaping is data dependent; messages built this
	// way are never compared, so wrap without escaping.
	r := Str{byteConsts['"']}
	r = append(r, s...)
	r = append(r, byteConsts['"'])
	return r
}

// formatValue renders v for %v / %s.
func (ex *Exec) formatValue(fr *frame, v Val, verb byte) Str {
	switch v := v.(type) {
	case Iface:
		if v.T == nil {
			if verb == 's' {
				return mkStr("%!s(<nil>)")
			}
			return mkStr("<nil>")
		}
		// error / Stringer
		if verb != 'd' && verb != 'x' && verb != 'c' {
			if m := ex.eng.lookupMethod(v.T, nil, "Error"); m != nil && isErrorMethod(m) {
				return ex.call(fr, m, []Val{v.V}).(Str)
			}
			if m := ex.eng.lookupMethod(v.T, nil, "String"); m != nil && isStringMethod(m) {
				return ex.call(fr, m, []Val{v.V}).(Str)
			}
		}
		return ex.formatTyped(fr, v.T, v.V, verb)
	}
	return mkStr(show(v))
}

func isErrorMethod(m *ssa.Function) bool {
	sig := m.Signature
	return sig.Params().Len() == 0 && sig.Results().Len() == 1 && types.Identical(sig.Results().At(0).Type(), types.Typ[types.String])
}

func isStringMethod(m *ssa.Function) bool { return isErrorMethod(m) }

func (ex *Exec) formatTyped(fr *frame, t types.Type, v Val, verb byte) Str {
	switch v := v.(type) {
	case Str:
		if verb == 'q' {
			return quoteStr(v)
		}
		return v
	case SliceV:
		if eb, ok := t.Underlying().(*types.Slice); ok {
			if b, ok := eb.Elem().Underlying().(*types.Basic); ok && b.Kind() == types.Uint8 {
				if verb == 'q' {
					return quoteStr(toStr(v))
				}
				if verb == 's' {
					return toStr(v)
				}
			}
		}
	case *Term:
		w, signed, _ := intWidth(t)
		if w == 0 {
			if v.IsConst() {
				return mkStr(strconv.FormatBool(v.Val == 1))
			}
			if ex.branch(v) {
				return mkStr("true")
			}
			return mkStr("false")
		}
		switch verb {
		case 'c':
			if v.IsConst() {
				return mkStr(string(rune(v.Signed())))
			}
			return Str{Resize(v, 8, false)}
		case 'q':
			if v.IsConst() {
				return mkStr(strconv.QuoteRune(rune(v.Signed())))
			}
			return Str{byteConsts['\''], Resize(v, 8, false), byteConsts['\'']}
		}
		if (verb == 'x' || verb == 'X') && !v.IsConst() && (!signed || ex.branch(Cmp(OpSLe, Const(w, 0), v))) {
			// hexadecimal digits of a symbolic value: fork on the number of digits only, each digit is a
			// table look-up on its nibble
			digits := "0123456789abcdef"
			if verb == 'X' {
				digits = "0123456789ABCDEF"
			}
			v64 := Resize(v, 64, false)
			n := 1
			for ; n < int(w)/4; n++ {
				if ex.branch(Cmp(OpULt, v64, Const(64, uint64(1)<<(4*uint(n))))) {
					break
				}
			}
			out := make(Str, 0, n)
			for k := n - 1; k >= 0; k-- {
				nib := Resize(Bin(OpLShr, v64, Const(64, uint64(4*k))), 8, false)
				nib = Bin(OpBAnd, nib, Const(8, 15))
				out = append(out, ex.strIndex(mkStr(digits), Resize(nib, 64, false)).(*Term))
			}
			return out
		}
		val := ex.concretize(v, "formatted integer")
		base := 10
		if verb == 'x' || verb == 'X' {
			base = 16
		}
		var txt string
		if signed {
			txt = strconv.FormatInt(signExt(val, w), base)
		} else {
			txt = strconv.FormatUint(val, base)
		}
		if verb == 'X' {
			txt = strings.ToUpper(txt)
		}
		return mkStr(txt)
	case *Val:
		if v == nil {
			return mkStr("<nil>")
		}
		return mkStr("0xc000000000")
	}
	return mkStr(fmt.Sprintf("<%s>", t.String()))
}

func (ex *Exec) sprintf(fr *frame, format Str, args []Val) Str {
	f, ok := format.concrete()
	if !ok {
		panic(inconclusive{"Sprintf with symbolic format"})
	}
	var out Str
	ai := 0
	for i := 0; i < len(f); i++ {
		c := f[i]
		if c != '%' {
			out = append(out, byteConsts[c])
			continue
		}
		i++
		if i >= len(f) {
			out = append(out, mkStr("%!(NOVERB)")...)
			break
		}
		// flags and width: '0' and a width are honoured for integers and strings; '#' is accepted for %v
		// (used in messages of unreachable branches only); anything else is outside the encoding
		flagStart := i
		for i < len(f) && strings.IndexByte("+-# 0123456789.", f[i]) >= 0 {
			i++
		}
		if i >= len(f) {
			out = append(out, mkStr("%!(NOVERB)")...)
			break
		}
		flags := f[flagStart:i]
		zeroPad := false
		width := 0
		for k := 0; k < len(flags); k++ {
			switch c := flags[k]; {
			case c == '0' && width == 0:
				zeroPad = true
			case c >= '0' && c <= '9':
				width = width*10 + int(c-'0')
			case c == '#':
			default:
				panic(inconclusive{"Sprintf flag " + string(c) + " unsupported"})
			}
		}
		padFrom := len(out)
		verb := f[i]
		if verb == '%' {
			out = append(out, byteConsts['%'])
			continue
		}
		if ai >= len(args) {
			out = append(out, mkStr("%!"+string(verb)+"(MISSING)")...)
			continue
		}
		a := args[ai]
		ai++
		func() {
			switch verb {
			case 's', 'v', 'd', 'q', 'c', 'x', 'X', 'w', 'T':
				if verb == 'w' {
					verb = 'v'
				}
				if verb == 'T' {
					if itf, ok := a.(Iface); ok && itf.T != nil {
						out = append(out, mkStr(itf.T.String())...)
					} else {
						out = append(out, mkStr("<nil>")...)
					}
					return
				}
				if verb == 'q' || verb == 'd' || verb == 'c' || verb == 'x' || verb == 'X' {
					if itf, ok := a.(Iface); ok && itf.T != nil {
						// fmt.handleMethods: for the verbs valid for strings (%s %q %v %x %X) an operand that is an
						// error or a Stringer is formatted through its method, whatever its underlying kind
						if verb == 'q' || verb == 'x' {
							var txt Str
							has := false
							if m := ex.eng.lookupMethod(itf.T, nil, "Error"); m != nil && isErrorMethod(m) {
								txt, has = ex.call(fr, m, []Val{itf.V}).(Str), true
							} else if m := ex.eng.lookupMethod(itf.T, nil, "String"); m != nil && isStringMethod(m) {
								txt, has = ex.call(fr, m, []Val{itf.V}).(Str), true
							}
							if has {
								if verb == 'q' {
									out = append(out, quoteStr(txt)...)
								} else {
									out = append(out, ex.formatTyped(fr, types.Typ[types.String], txt, 'x')...)
								}
								return
							}
						}
						// %q on an error/Stringer quotes its text
						if verb == 'q' {
							if _, isStr := itf.V.(Str); !isStr {
								if _, isSl := itf.V.(SliceV); !isSl {
									if _, isT := itf.V.(*Term); !isT {
										out = append(out, quoteStr(ex.formatValue(fr, a, 'v'))...)
										return
									}
								}
							}
						}
						out = append(out, ex.formatTyped(fr, itf.T, itf.V, verb)...)
						return
					}
				}
				out = append(out, ex.formatValue(fr, a, verb)...)
			case 'p':
				// an address: unique per object within a run (the native value is arbitrary; code may only rely on
				// distinct objects printing differently and one object printing the same every time)
				var key interface{} = a
				if itf, ok := a.(Iface); ok {
					key = itf.V
				}
				switch key.(type) {
				case *Val, *MapV:
				default:
					panic(inconclusive{"Sprintf %p of a non-pointer value"})
				}
				if ex.ptrIDs == nil {
					ex.ptrIDs = map[interface{}]int{}
				}
				id, ok := ex.ptrIDs[key]
				if !ok {
					id = len(ex.ptrIDs) + 1
					ex.ptrIDs[key] = id
				}
				out = append(out, mkStr(fmt.Sprintf("0xc%09x", id*16))...)
			default:
				panic(inconclusive{"Sprintf verb %" + string(verb) + " unsupported"})
			}
		}()
		// width: pad on the left with blanks, or with zeros for a zero-padded number
		if n := len(out) - padFrom; width > n {
			padc := byteConsts[' ']
			if zeroPad && (verb == 'd' || verb == 'x' || verb == 'X') {
				padc = byteConsts['0']
			}
			piece := append(Str(nil), out[padFrom:]...)
			out = out[:padFrom]
			for k := 0; k < width-n; k++ {
				out = append(out, padc)
			}
			out = append(out, piece...)
		}
	}
	return out
}

func variadic(v Val) []Val {
	if v == nil {
		return nil
	}
	return v.(SliceV).A
}

func inSprintf(ex *Exec, fr *frame, args []Val) Val {
	return ex.sprintf(fr, args[0].(Str), variadic(args[1]))
}

// fmt.Fprintf: format with the Sprintf intrinsic, then hand the bytes to the writer's own Write method.
func inFprintf(ex *Exec, fr *frame, args []Val) Val {
	itf, ok := args[0].(Iface)
	if !ok || itf.T == nil {
		ex.targetPanic("runtime error: invalid memory address or nil pointer dereference")
	}
	txt := ex.sprintf(fr, args[1].(Str), variadic(args[2]))
	m := ex.eng.lookupMethod(itf.T, nil, "Write")
	if m == nil {
		panic(inconclusive{"Fprintf: writer without Write method"})
	}
	cells := make([]Val, len(txt))
	for i, b := range txt {
		cells[i] = b
	}
	return ex.call(fr, m, []Val{itf.V, SliceV{A: cells}})
}

func inSprint(ex *Exec, fr *frame, args []Val) Val {
	var out Str
	for _, a := range variadic(args[0]) {
		out = append(out, ex.formatValue(fr, a, 'v')...)
	}
	return out
}

func inErrorf(ex *Exec, fr *frame, args []Val) Val {
	format := args[0].(Str)
	va := variadic(args[1])
	msg := ex.sprintf(fr, format, va)
	f, _ := format.concrete()
	fmtPkg := ex.eng.Prog.ImportedPackage("fmt")
	// find %w operand
	wi := -1
	ai := 0
	for i := 0; i+1 < len(f); i++ {
		if f[i] == '%' {
			j := i + 1
			for j < len(f) && strings.IndexByte("+-# 0123456789.", f[j]) >= 0 {
				j++
			}
			if j < len(f) {
				if f[j] == '%' {
					i = j
					continue
				}
				if f[j] == 'w' && wi < 0 {
					wi = ai
				}
				ai++
				i = j
			}
		}
	}
	if wi >= 0 && wi < len(va) {
		if itf, ok := va[wi].(Iface); ok {
			t := fmtPkg.Type("wrapError").Type()
			cell := new(Val)
			*cell = StructV{msg, itf}
			return Iface{T: types.NewPointer(t), V: cell}
		}
	}
	t := fmtPkg.Type("wrapError") // reuse errors.errorString instead
	_ = t
	errPkg := ex.eng.Prog.ImportedPackage("errors")
	es := errPkg.Type("errorString").Type()
	cell := new(Val)
	*cell = StructV{msg}
	return Iface{T: types.NewPointer(es), V: cell}
}

// ---- errors ----

func (ex *Exec) unwrap(fr *frame, e Iface) (Iface, bool) {
	m := ex.eng.lookupMethod(e.T, nil, "Unwrap")
	if m == nil || m.Signature.Params().Len() != 0 || m.Signature.Results().Len() != 1 {
		return Iface{}, false
	}
	if _, isSlice := m.Signature.Results().At(0).Type().Underlying().(*types.Slice); isSlice {
		panic(inconclusive{"errors: Unwrap() []error unsupported"})
	}
	r := ex.call(fr, m, []Val{e.V}).(Iface)
	return r, true
}

func inErrorsIs(ex *Exec, fr *frame, args []Val) Val {
	err := args[0].(Iface)
	target := args[1].(Iface)
	if err.T == nil || target.T == nil {
		return Bool(err.T == nil && target.T == nil)
	}
	for {
		if types.Comparable(target.T) && types.Identical(err.T, target.T) {
			eq := ex.equal(err, target)
			if ex.branch(eq) {
				return True
			}
		}
		if m := ex.eng.lookupMethod(err.T, nil, "Is"); m != nil && m.Signature.Params().Len() == 1 {
			if ex.branch(ex.call(fr, m, []Val{err.V, target}).(*Term)) {
				return True
			}
		}
		next, ok := ex.unwrap(fr, err)
		if !ok || next.T == nil {
			return False
		}
		err = next
	}
}

func inErrorsAs(ex *Exec, fr *frame, args []Val) Val {
	err := args[0].(Iface)
	target := args[1].(Iface)
	if target.T == nil {
		panic(targetPanic{v: Iface{T: types.Typ[types.String], V: mkStr("errors: target cannot be nil")}})
	}
	pt, ok := target.T.Underlying().(*types.Pointer)
	if !ok || target.V.(*Val) == nil {
		panic(targetPanic{v: Iface{T: types.Typ[types.String], V: mkStr("errors: target must be a non-nil pointer")}})
	}
	targetType := pt.Elem()
	cell := target.V.(*Val)
	if err.T == nil {
		return False
	}
	for {
		if ti, isI := targetType.Underlying().(*types.Interface); isI {
			if types.Implements(err.T, ti) {
				*cell = err
				return True
			}
		} else if types.Identical(err.T, targetType) {
			*cell = copyVal(err.V)
			return True
		}
		if m := ex.eng.lookupMethod(err.T, nil, "As"); m != nil && m.Signature.Params().Len() == 1 {
			if ex.branch(ex.call(fr, m, []Val{err.V, target}).(*Term)) {
				return True
			}
		}
		next, ok := ex.unwrap(fr, err)
		if !ok || next.T == nil {
			return False
		}
		err = next
	}
}

// ---- regexp (single supported pattern) ----

func isSpaceTerm(b *Term) *Term {
	// regexp \s (Perl class): [\t\n\f\r ]
	r := False
	for _, c := range []byte{'\t', '\n', '\f', '\r', ' '} {
		r = Or(r, Eq(b, byteConsts[c]))
	}
	return r
}

func inRegexpReplaceAllString(ex *Exec, fr *frame, args []Val) Val {
	re, isOpaque := (*args[0].(*Val)).(*Opaque)
	if !isOpaque {
		m := ex.eng.lookupMethod(types.NewPointer(ex.eng.Prog.ImportedPackage("regexp").Type("Regexp").Type()), nil, "ReplaceAllString")
		ex.runBodyArgs(m, args)
		return ex.lastResult
	}
	if re.Data.(string) != `\s+` {
		panic(inconclusive{"regexp pattern not supported: " + re.Data.(string)})
	}
	src := args[1].(Str)
	repl := args[2].(Str)
	var out Str
	inRun := false
	for _, b := range src {
		if ex.branch(isSpaceTerm(b)) {
			if !inRun {
				out = append(out, repl...)
				inRun = true
			}
		} else {
			out = append(out, b)
			inRun = false
		}
	}
	return out
}

func inUnicodeIsSpace(ex *Exec, fr *frame, args []Val) Val {
	r := Resize(args[0].(*Term), 32, true)
	eq := func(v uint64) *Term { return Eq(r, Const(32, v)) }
	t := False
	for _, v := range []uint64{'\t', '\n', '\v', '\f', '\r', ' ', 0x85, 0xA0, 0x1680, 0x2028, 0x2029, 0x202f, 0x205f, 0x3000} {
		t = Or(t, eq(v))
	}
	t = Or(t, And(Cmp(OpULe, Const(32, 0x2000), r), Cmp(OpULe, r, Const(32, 0x200a))))
	return t
}

// ---- tabulated pure functions ----

type tabulated struct {
	fn    *ssa.Function
	lo    []int64
	hi    []int64
	table map[string]uint64
	w     uint8
}

func (tab *tabulated) call(ex *Exec, fr *frame, args []Val) Val {
	allConst := true
	for _, a := range args {
		t, ok := a.(*Term)
		if !ok {
			panic(inconclusive{"tabulated function with non-scalar argument"})
		}
		if !t.IsConst() {
			allConst = false
		}
	}
	if allConst {
		ex.runBodyArgs(tab.fn, args)
		return ex.lastResult
	}
	ex.eng.tabMu.Lock()
	if tab.table == nil {
		tab.build(ex, args)
	}
	ex.eng.tabMu.Unlock()
	// domain check
	for i, a := range args {
		t := a.(*Term)
		in := And(Cmp(OpULe, Const(t.W, uint64(tab.lo[i])), t), Cmp(OpULe, t, Const(t.W, uint64(tab.hi[i]))))
		if !ex.branch(in) {
			panic(inconclusive{"tabulated function " + tab.fn.String() + " called outside its domain"})
		}
	}
	// build ite chain / disjunction
	var rec func(i int, key []int64) *Term
	rec = func(i int, key []int64) *Term {
		if i == len(args) {
			return Const(tab.w, tab.table[fmt.Sprint(key)])
		}
		t := args[i].(*Term)
		if t.IsConst() {
			return rec(i+1, append(key, t.Signed()))
		}
		subs := make([]*Term, 0, tab.hi[i]-tab.lo[i]+1)
		allConst := true
		for v := tab.lo[i]; v <= tab.hi[i]; v++ {
			sub := rec(i+1, append(append([]int64(nil), key...), v))
			if !sub.IsConst() {
				allConst = false
			}
			subs = append(subs, sub)
		}
		inRange := func(lo, hi int64) *Term {
			if lo == hi {
				return Eq(t, Const(t.W, uint64(lo)))
			}
			return And(Cmp(OpULe, Const(t.W, uint64(lo)), t), Cmp(OpULe, t, Const(t.W, uint64(hi))))
		}
		if allConst {
			// compress runs of equal results into ranges
			type run struct {
				lo, hi int64
				val    *Term
			}
			var runs []run
			for k, sub := range subs {
				v := tab.lo[i] + int64(k)
				if n := len(runs); n > 0 && runs[n-1].val.Val == sub.Val {
					runs[n-1].hi = v
				} else {
					runs = append(runs, run{v, v, sub})
				}
			}
			if tab.w == 0 {
				r := False
				for _, ru := range runs {
					if ru.val.Val == 1 {
						r = Or(r, inRange(ru.lo, ru.hi))
					}
				}
				return r
			}
			r := runs[len(runs)-1].val
			for k := len(runs) - 2; k >= 0; k-- {
				r = Ite(inRange(runs[k].lo, runs[k].hi), runs[k].val, r)
			}
			return r
		}
		r := subs[len(subs)-1]
		for k := len(subs) - 2; k >= 0; k-- {
			r = Ite(Eq(t, Const(t.W, uint64(tab.lo[i]+int64(k)))), subs[k], r)
		}
		return r
	}
	return rec(0, nil)
}

func (tab *tabulated) build(ex *Exec, args []Val) {
	// domains: every integer-typed parameter whose named type has a String method
	// backed by a package-level table is taken as 0..len-1; otherwise configured
	// through Config.Bounds as "<func>#<i>".
	n := len(args)
	tab.lo = make([]int64, n)
	tab.hi = make([]int64, n)
	for i := range args {
		key := fmt.Sprintf("tab:%s#%d", tab.fn.Name(), i)
		hi, ok := ex.eng.Cfg.Bounds[key]
		if !ok {
			hi, ok = ex.eng.Cfg.Bounds["tab:*"]
		}
		if !ok {
			panic(inconclusive{"no domain bound " + key + " for tabulated function"})
		}
		tab.hi[i] = int64(hi)
	}
	tab.table = map[string]uint64{}
	var rec func(i int, key []int64, vals []Val)
	rec = func(i int, key []int64, vals []Val) {
		if i == n {
			ex.runBodyArgs(tab.fn, vals)
			r := ex.lastResult.(*Term)
			if !r.IsConst() {
				panic(inconclusive{"tabulated function returned a symbolic value"})
			}
			tab.w = r.W
			tab.table[fmt.Sprint(key)] = r.Val
			return
		}
		w := args[i].(*Term).W
		for v := tab.lo[i]; v <= tab.hi[i]; v++ {
			rec(i+1, append(append([]int64(nil), key...), v), append(append([]Val(nil), vals...), Const(w, uint64(v))))
		}
	}
	rec(0, nil, nil)
}

// runBodyArgs interprets fn's body with args, bypassing stubs/intrinsics for fn itself.
func (ex *Exec) runBodyArgs(fn *ssa.Function, args []Val) {
	ex.depth++
	fr := &frame{ex: ex, caller: ex.cur, fn: fn}
	fr.env = make(map[ssa.Value]Val, 16)
	fr.block = fn.Blocks[0]
	fr.locals = make([]Val, len(fn.Locals))
	for i, l := range fn.Locals {
		fr.locals[i] = zero(deref(l.Type()))
		fr.env[l] = &fr.locals[i]
	}
	for i, p := range fn.Params {
		fr.env[p] = args[i]
	}
	saved := ex.cur
	ex.cur = fr
	for fr.block != nil {
		ex.runFrame(fr)
	}
	ex.cur = saved
	ex.depth--
	ex.lastResult = fr.result
}

var opaqueType = types.NewNamed(types.NewTypeName(0, nil, "gosym.opaque", nil), types.NewStruct(nil, nil), nil)

func (eng *Engine) opaqueMethod(recv Iface, name string) Intrinsic {
	if recv.T == opaqueType {
		// reflect-like objects are only carried around (errors.errorType); any use yields the same opaque object
		return func(ex *Exec, fr *frame, args []Val) Val { return Iface{T: opaqueType, V: args[0]} }
	}
	return nil
}

// syncMap returns the map backing a sync.Map object (kept in a side table keyed by the object's cell).
func (ex *Exec) syncMap(v Val) *MapV {
	p, ok := v.(*Val)
	if !ok || p == nil {
		ex.targetPanic("runtime error: invalid memory address or nil pointer dereference")
	}
	if ex.syncMaps == nil {
		ex.syncMaps = map[*Val]*MapV{}
	}
	m := ex.syncMaps[p]
	if m == nil {
		m = &MapV{}
		ex.syncMaps[p] = m
	}
	return m
}

// noteSharedWrite records a write to process-wide state: a sync.Map that is a package-level variable.
func (ex *Exec) noteSharedWrite(v Val, what string) {
	p, _ := v.(*Val)
	for g, cell := range ex.globals {
		if cell == p {
			ex.sharedWrites = append(ex.sharedWrites, what+" on package-level "+g.String()+" at "+ex.site(ex.cur))
		}
	}
}
