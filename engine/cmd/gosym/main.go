package main

import (
	"regexp"
	"encoding/json"
	"flag"
	"fmt"
	"os"
	"path/filepath"
	"strings"

	"gosym/sym"
)

func usage() {
	fmt.Fprintln(os.Stderr, "usage: gosym run|check|replay ...")
	os.Exit(2)
}

func main() {
	if len(os.Args) < 2 {
		usage()
	}
	switch os.Args[1] {
	case "run":
		cmdRun(os.Args[2:])
	case "check":
		cmdCheck(os.Args[2:])
	case "replay":
		cmdReplay(os.Args[2:])
	case "crosscheck":
		cmdCrossCheck(os.Args[2:])
	case "ssa":
		ov, _ := loadOverlay("/repo", verifDir+"/harness")
		eng, err := sym.Load("/repo", ov)
		if err != nil {
			fatal2("%v", err)
		}
		eng.DumpSSA(os.Args[2], os.Args[3])
	default:
		usage()
	}
}

// loadOverlay maps /verif/harness/<pkg>/*.go to /repo/<pkg>/<file>.
// droppedHarnessFiles: harness files that do not compile against the tree under test (a refactoring renamed
// something internal they refer to). They are left out of the overlay - and of the native replay build - so
// that the other harnesses still run; the harnesses they define are reported as unavailable (inconclusive).
var droppedHarnessFiles = map[string]string{} // base name -> first compile error

var harnessFileInError = regexp.MustCompile(`(zz_verif_\w+\.go):\d+`)

// loadEngine loads /repo with the harness overlay; when the load fails with errors inside harness files, those
// files are dropped and the load is retried (errors cascade, hence the loop).
func loadEngine(repo, harnessDir string) (*sym.Engine, error) {
	for attempt := 0; ; attempt++ {
		ov, err := loadOverlay(repo, harnessDir)
		if err != nil {
			return nil, err
		}
		eng, err := sym.Load(repo, ov)
		if err == nil {
			return eng, nil
		}
		if attempt >= 6 || !strings.Contains(err.Error(), "package load errors") {
			return nil, err
		}
		dropped := false
		for _, line := range strings.Split(err.Error(), "\n") {
			if m := harnessFileInError.FindStringSubmatch(line); m != nil {
				if _, ok := droppedHarnessFiles[m[1]]; !ok {
					droppedHarnessFiles[m[1]] = strings.TrimSpace(line)
					dropped = true
				}
			}
		}
		if !dropped {
			return nil, err
		}
	}
}

func loadOverlay(repo, harnessDir string) (map[string][]byte, error) {
	ov := map[string][]byte{}
	for _, extra := range extraHarnessDirs { // generated harness data (fixtures.go)
		filepath.Walk(extra, func(p string, info os.FileInfo, err error) error {
			if err != nil || info.IsDir() || !strings.HasSuffix(p, ".go") {
				return nil
			}
			rel, _ := filepath.Rel(extra, p)
			if b, err := os.ReadFile(p); err == nil {
				ov[filepath.Join(repo, rel)] = b
			}
			return nil
		})
	}
	err := filepath.Walk(harnessDir, func(p string, info os.FileInfo, err error) error {
		if err != nil || info.IsDir() || !strings.HasSuffix(p, ".go") {
			return err
		}
		if _, skip := droppedHarnessFiles[filepath.Base(p)]; skip {
			return nil
		}
		rel, _ := filepath.Rel(harnessDir, p)
		if strings.HasPrefix(rel, "veriflib/") {
			rel = "internal/" + rel
		} else if strings.HasPrefix(rel, "verifrt/") {
			if strings.HasSuffix(rel, "_native.go") {
				// native implementation is part of the package too (bodies ignored symbolically)
			}
			rel = "internal/" + rel
		}
		b, err := os.ReadFile(p)
		if err != nil {
			return err
		}
		ov[filepath.Join(repo, rel)] = b
		return nil
	})
	return ov, err
}

func cmdRun(args []string) {
	fs := flag.NewFlagSet("run", flag.ExitOnError)
	repo := fs.String("repo", "/repo", "repository directory")
	hdir := fs.String("harness", verifDir+"/harness", "harness directory")
	pkg := fs.String("pkg", "", "package (relative)")
	fn := fs.String("fn", "", "harness function")
	bounds := fs.String("bounds", "", "N=3,M=2")
	stubs := fs.String("stubs", "", "real=stub;real=stub")
	workers := fs.Int("workers", 16, "workers")
	verbose := fs.Bool("v", false, "verbose")
	maporder := fs.Bool("maporder", false, "explore all map orders")
	only := fs.String("only", "", "decision prefix")
	maxPaths := fs.Int("maxpaths", 0, "path cap")
	tabulate := fs.String("tabulate", "", "f1;f2")
	lockmon := fs.Bool("lockmon", false, "lock discipline monitor")
	fulllib := fs.Bool("fulllib", false, "interpret the schema library")
	steps := fs.Int("steps", 0, "step budget per path")
	nfix := fs.Int("fixtures", 0, "translator validation: sample this many /repo/testdata fixtures (-1 all)")
	fixMax := fs.Int("fixmax", 0, "skip fixtures larger than this many bytes")
	fs.Parse(args)
	if *nfix != 0 {
		dir, n, err := genFixtures(*repo, *nfix, 0, *fixMax)
		if dir != "" {
			genDirs = append(genDirs, dir)
			defer cleanupGen()
		}
		if err != nil {
			fatal2("fixtures: %v", err)
		}
		fmt.Printf("%d fixtures, native outcomes computed\n", n)
	}
	eng, err := loadEngine(*repo, *hdir)
	for f, e := range droppedHarnessFiles {
		fmt.Printf("harness file %s does not compile against this tree and was left out: %s\n", f, e)
	}
	if err != nil {
		fmt.Fprintln(os.Stderr, err)
		os.Exit(2)
	}
	cfg := sym.Config{Pkg: *pkg, Harness: *fn, Bounds: map[string]int{}, Stubs: map[string]string{},
		Workers: *workers, Verbose: *verbose, MapOrderAny: *maporder, Only: *only, MaxPaths: *maxPaths, LockMonitor: *lockmon, FullSchemaLib: *fulllib}
	cfg.StepBudget = *steps
	for _, kv := range strings.Split(*bounds, ",") {
		if kv == "" {
			continue
		}
		var k string
		var v int
		parts := strings.SplitN(kv, "=", 2)
		k = parts[0]
		fmt.Sscan(parts[1], &v)
		cfg.Bounds[k] = v
	}
	for _, t := range strings.Split(*tabulate, ";") {
		if t != "" {
			cfg.Tabulate = append(cfg.Tabulate, t)
		}
	}
	for _, kv := range strings.Split(*stubs, ";") {
		if kv == "" {
			continue
		}
		parts := strings.SplitN(kv, "=", 2)
		cfg.Stubs[parts[0]] = parts[1]
	}
	rep, err := eng.Run(cfg)
	if err != nil {
		fmt.Fprintln(os.Stderr, err)
		os.Exit(2)
	}
	printReport(rep)
}

func printReport(rep *sym.Report) {
	fmt.Printf("harness %s/%s bounds=%v\n", rep.Pkg, rep.Harness, rep.Bounds)
	fmt.Printf("paths=%d steps=%d domdecided=%d queries=%d (sat %d unsat %d unknown %d err %d) solver=%.2fs wall=%.2fs\n",
		rep.Paths, rep.Steps, rep.DomDecided, rep.Queries, rep.SolverSat, rep.SolverUnsat, rep.SolverUnknown, rep.SolverErrors,
		rep.SolverTime.Seconds(), rep.Wall.Seconds())
	for _, id := range sym.SortedKeys(rep.Asserts) {
		a := rep.Asserts[id]
		fmt.Printf("  assert %-40s checked=%d trivial=%d discharged=%d violated=%d unknown=%d\n", id, a.Checked, a.Trivial, a.Discharged, a.Violated, a.Unknown)
	}
	for _, id := range sym.SortedKeys(rep.Reach) {
		fmt.Printf("  reach  %-40s hits=%d\n", id, rep.Reach[id])
	}
	for _, k := range sym.SortedKeys(rep.Inconclusive) {
		fmt.Printf("  INCONCLUSIVE x%d: %s\n", rep.Inconclusive[k], k)
	}
	for _, k := range sym.SortedKeys(rep.Notes) {
		fmt.Printf("  note x%d: %s\n", rep.Notes[k], k)
	}
	seen := map[string]int{}
	for _, v := range rep.Violations {
		key := v.Kind + "|" + v.ID + "|" + v.Msg + "|" + v.Site
		seen[key]++
		if seen[key] > 2 {
			continue
		}
		m := sym.RenderModel(sym.ModelOrder(v.Model), v.Model)
		mb, _ := json.Marshal(m)
		fmt.Printf("  VIOLATION %s %s: %s at %s\n     model %s\n", v.Kind, v.ID, v.Msg, v.Site, mb)
		if len(v.Notes) > 0 {
			nb, _ := json.Marshal(v.Notes)
			fmt.Printf("     notes %s\n", nb)
		}
		if len(v.Stack) > 0 {
			fmt.Printf("     stack %s\n", strings.Join(v.Stack, " <- "))
		}
	}
	for k, n := range seen {
		if n > 2 {
			fmt.Printf("  (%d more of %s)\n", n-2, k)
		}
	}
	if len(rep.Samples) > 0 {
		sb, _ := json.Marshal(rep.Samples[:min(3, len(rep.Samples))])
		fmt.Printf("  samples %s\n", sb)
	}
}

func cmdReplay(args []string) {
	if len(args) != 1 {
		usage()
	}
	var doc replayDoc
	if err := loadJSON(args[0], &doc); err != nil {
		fatal2("cannot read replay file: %v", err)
	}
	rp := newReplayer("/repo")
	defer rp.cleanup()
	v := sym.Violation{Kind: doc.Kind, ID: doc.ID, Harness: doc.Harness, Pkg: doc.Pkg, Model: doc.Vars, Bounds: doc.Bounds}
	out, ok := rp.replay(v, args[0])
	fmt.Println(out)
	if ok {
		fmt.Printf("replay reproduces the violation (%s %s)\n", doc.Kind, doc.ID)
		os.Exit(1)
	}
	fmt.Println("replay does not reproduce the violation")
}
