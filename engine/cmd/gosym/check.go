package main

import (
	"encoding/json"
	"flag"
	"fmt"
	"os"
	"os/exec"
	"os/signal"
	"path/filepath"
	"regexp"
	"sort"
	"strings"
	"syscall"
	"time"

	"gosym/sym"
)

// ---- registry (/verif/checks.json) ----

type HarnessSpec struct {
	Pkg               string            `json:"pkg"`
	Fn                string            `json:"fn"`
	Quick             map[string]int    `json:"quick"`
	Thorough          map[string]int    `json:"thorough"`
	Stubs             map[string]string `json:"stubs,omitempty"`
	StubSets          []string          `json:"stubsets,omitempty"`
	TabSets           []string          `json:"tabsets,omitempty"`
	Tabulate          []string          `json:"tabulate,omitempty"`
	MapOrder          bool              `json:"maporder,omitempty"`
	BudgetViolation   bool              `json:"budget_violation,omitempty"`
	StepBudget        int               `json:"step_budget,omitempty"`
	DepthBudget       int               `json:"depth_budget,omitempty"`
	LockMonitor       bool              `json:"lock_monitor,omitempty"`
	FullSchemaLib     bool              `json:"full_schema_lib,omitempty"`
	MaxPaths          int               `json:"max_paths,omitempty"`
	MaxPathsThorough  int               `json:"max_paths_thorough,omitempty"`
	Instances         []map[string]int  `json:"instances,omitempty"`          // extra bound sets, each run separately (quick and thorough)
	InstancesThorough []map[string]int  `json:"instances_thorough,omitempty"` // thorough-only instances
	NoReplayKinds     []string          `json:"no_replay_kinds,omitempty"`
	NoReplayAsserts   []string          `json:"no_replay_asserts,omitempty"` // assertions about engine-only observations (lock state): not reproducible natively
	ReplayRepeat      int               `json:"replay_repeat,omitempty"`     // native replays per counterexample (order-dependent behaviour shows up only in some runs)
	TimeoutMs         int               `json:"solver_timeout_ms,omitempty"`
	Claim             string            `json:"claim,omitempty"`
	Fixtures          int               `json:"fixtures,omitempty"`          // translator validation: number of /repo/testdata fixtures sampled (quick); -1 = all
	FixturesThorough  int               `json:"fixtures_thorough,omitempty"` // same, thorough tier
	FixtureMaxBytes   int               `json:"fixture_max_bytes,omitempty"`
	// paths that end with one of these reasons are reported as "not executed" (evidence: paths_not_executed)
	// instead of making the check inconclusive: used by the fixture harness, where a path is one concrete
	// fixture and an oversized fixture says nothing about the property
	ToleratedInconclusive []string `json:"tolerated_inconclusive,omitempty"`
	MaxWallS              int      `json:"max_wall_s,omitempty"` // wall-clock cap per instance; default 1500 s quick, 3000 s thorough
}

var toleratedNotes = map[string]int{}

type CheckSpec struct {
	Title       string        `json:"title"`
	Harnesses   []HarnessSpec `json:"harnesses"`
	Assumptions []string      `json:"assumptions"`
	NotDecided  []string      `json:"not_decided"`
}

type KnownFinding struct {
	Property     string `json:"property"`
	Status       string `json:"status"` // known | fixed
	Commit       string `json:"commit,omitempty"`
	Harness      string `json:"harness"`
	Kind         string `json:"kind"`
	ID           string `json:"id"`
	SiteContains string `json:"site_contains,omitempty"`
	MsgContains  string `json:"msg_contains,omitempty"`
	InputRegex   string `json:"input_regex,omitempty"`   // matched against the rendered model (JSON)
	NoteContains string `json:"note_contains,omitempty"` // matched against the harness notes attached to the violation
	What         string `json:"what"`
}

var verifDir = func() string {
	if d := os.Getenv("VERIF_DIR"); d != "" {
		return d
	}
	return "/verif"
}()

func loadJSON(path string, v interface{}) error {
	b, err := os.ReadFile(path)
	if err != nil {
		return err
	}
	return json.Unmarshal(b, v)
}

type confirmed struct {
	v      sym.Violation
	replay string
	output string
}

func cmdCheck(args []string) {
	fs := flag.NewFlagSet("check", flag.ExitOnError)
	tier := fs.String("tier", os.Getenv("VERIF_TIER"), "quick|thorough")
	repo := fs.String("repo", "/repo", "repository")
	workers := fs.Int("workers", 16, "workers")
	onlyH := fs.String("only", "", "run only harnesses whose name contains this")
	noReplay := fs.Bool("no-replay", false, "skip native replay (debug)")
	fs.Parse(reorder(args))
	if fs.NArg() != 1 {
		fmt.Fprintln(os.Stderr, "usage: gosym check <ID> [--tier quick|thorough]")
		os.Exit(2)
	}
	id := fs.Arg(0)
	if *tier == "" {
		*tier = "quick"
	}
	seed := 0
	fmt.Sscan(os.Getenv("VERIF_SEED"), &seed)
	start := time.Now()

	var reg map[string]CheckSpec
	if err := loadJSON(filepath.Join(verifDir, "checks.json"), &reg); err != nil {
		fatal2("cannot read checks.json: %v", err)
	}
	var sets struct {
		Stubs map[string]map[string]string `json:"stubsets"`
		Tabs  map[string]struct {
			Funcs  []string       `json:"funcs"`
			Bounds map[string]int `json:"bounds"`
		} `json:"tabsets"`
	}
	if err := loadJSON(filepath.Join(verifDir, "checksets.json"), &sets); err != nil {
		fatal2("cannot read checksets.json: %v", err)
	}
	spec, ok := reg[id]
	if !ok {
		fatal2("no check registered for %s", id)
	}
	var known []KnownFinding
	loadJSON(filepath.Join(verifDir, "known_findings.json"), &known)

	for _, h := range spec.Harnesses {
		nfix := h.Fixtures
		if *tier == "thorough" && h.FixturesThorough != 0 {
			nfix = h.FixturesThorough
		}
		if nfix == 0 || (*onlyH != "" && !strings.Contains(h.Fn, *onlyH)) {
			continue
		}
		dir, n, err := genFixtures(*repo, nfix, seed, h.FixtureMaxBytes)
		if dir != "" {
			genDirs = append(genDirs, dir)
			defer cleanupGen()
		}
		if err != nil {
			fatal2("fixtures: %v", err)
		}
		fmt.Printf("translator validation: %d fixtures of %s/testdata, native outcomes computed\n", n, *repo)
		break
	}
	eng, err := loadEngine(*repo, filepath.Join(verifDir, "harness"))
	if err != nil {
		fatal2("load: %v", err)
	}
	loadTime := time.Since(start)

	var reports []*sym.Report
	inconclusive := map[string]int{}
	for f, e := range droppedHarnessFiles {
		fmt.Printf("harness file %s does not compile against this tree and was left out: %s\n", f, e)
	}
	reachAgg := map[string]int{}
	for _, h := range spec.Harnesses {
		if *onlyH != "" && !strings.Contains(h.Fn, *onlyH) {
			continue
		}
		base := h.Quick
		if *tier == "thorough" && h.Thorough != nil {
			base = h.Thorough
		}
		insts := append([]map[string]int{}, h.Instances...)
		if *tier == "thorough" {
			insts = append(insts, h.InstancesThorough...)
		}
		if len(insts) == 0 {
			insts = []map[string]int{{}}
		}
		for _, inst := range insts {
			bounds := map[string]int{}
			for k, v := range base {
				bounds[k] = v
			}
			for k, v := range inst {
				bounds[k] = v
			}
			stubs := map[string]string{}
			for _, name := range h.StubSets {
				set, ok := sets.Stubs[name]
				if !ok {
					fatal2("unknown stubset %s", name)
				}
				for k, v := range set {
					if h.Pkg != "" && strings.HasPrefix(v, h.Pkg+".") {
						v = strings.TrimPrefix(v, h.Pkg+".")
					}
					stubs[k] = v
				}
			}
			for k, v := range h.Stubs {
				stubs[k] = v
			}
			tabulate := append([]string{}, h.Tabulate...)
			for _, name := range h.TabSets {
				set, ok := sets.Tabs[name]
				if !ok {
					fatal2("unknown tabset %s", name)
				}
				tabulate = append(tabulate, set.Funcs...)
				for k, v := range set.Bounds {
					bounds[k] = v
				}
			}
			cfg := sym.Config{Pkg: h.Pkg, Harness: h.Fn, Bounds: bounds, Stubs: stubs, Tabulate: tabulate,
				MapOrderAny: h.MapOrder, BudgetViolation: h.BudgetViolation, StepBudget: h.StepBudget,
				DepthBudget: h.DepthBudget, LockMonitor: h.LockMonitor, FullSchemaLib: h.FullSchemaLib, Workers: *workers, MaxPaths: h.MaxPaths,
				SolverTimeoutMs: h.TimeoutMs, FocusProperty: id}
			if *tier == "thorough" {
				if h.MaxPathsThorough > 0 {
					cfg.MaxPaths = h.MaxPathsThorough
				}
				if cfg.SolverTimeoutMs == 0 {
					cfg.SolverTimeoutMs = 60000
				}
			}
			cfg.MaxWallS = h.MaxWallS
			if cfg.MaxWallS == 0 {
				cfg.MaxWallS = 1500
				if *tier == "thorough" {
					cfg.MaxWallS = 3000
				}
			}
			rep, err := eng.Run(cfg)
			if err != nil {
				inconclusive[fmt.Sprintf("%s: %v", h.Fn, err)]++
				fmt.Printf("harness %s/%s %v: ERROR %v\n", h.Pkg, h.Fn, bounds, err)
				continue
			}
			reports = append(reports, rep)
			fmt.Printf("harness %s/%s %v: paths=%d queries=%d violations=%d inconclusive=%d wall=%.1fs\n",
				h.Pkg, h.Fn, bounds, rep.Paths, rep.Queries, len(rep.Violations), len(rep.Inconclusive), rep.Wall.Seconds())
			for k, n := range rep.Inconclusive {
				tolerated := false
				for _, pat := range h.ToleratedInconclusive {
					if strings.Contains(k, pat) {
						tolerated = true
					}
				}
				if tolerated {
					toleratedNotes[h.Fn+": "+k] += n
					fmt.Printf("note: %d path(s) of %s not executed: %s\n", n, h.Fn, k)
					continue
				}
				inconclusive[h.Fn+": "+k] += n
			}
			// vacuity: every Reach id must be hit in at least one instance of the harness
			for rid, n := range rep.Reach {
				key := h.Fn + ": reach witness " + rid
				if _, ok := reachAgg[key]; !ok {
					reachAgg[key] = 0
				}
				reachAgg[key] += n
			}
		}
	}

	for key, n := range reachAgg {
		if n == 0 {
			inconclusive[key+" never satisfied in any instance (vacuous harness?)"]++
		}
	}

	// ---- classify violations ----
	rp := newReplayer(*repo)
	defer rp.cleanup()
	// a check that is interrupted removes its scratch directories as well
	sigc := make(chan os.Signal, 1)
	signal.Notify(sigc, syscall.SIGTERM, syscall.SIGINT)
	go func() {
		<-sigc
		rp.cleanup()
		cleanupGen()
		os.Exit(2)
	}()
	type group struct {
		key  string
		list []sym.Violation
	}
	groups := map[string]*group{}
	var gorder []string
	otherProps := map[string]int{}
	for _, rep := range reports {
		for _, v := range rep.Violations {
			if v.Kind == "assert" && !strings.HasPrefix(v.ID, id+".") {
				// assertion of another property hosted by the same harness: reported by that property's check
				otherProps[v.ID]++
				continue
			}
			key := v.Harness + "|" + v.Kind + "|" + v.ID + "|" + siteFunc(v.Site) + "|" + v.Msg
			g := groups[key]
			if g == nil {
				g = &group{key: key}
				groups[key] = g
				gorder = append(gorder, key)
			}
			g.list = append(g.list, v)
		}
	}
	sort.Strings(gorder)
	for oid, n := range otherProps {
		fmt.Printf("note: %d violation(s) of assertion %s belong to another property's check\n", n, oid)
	}
	var newViolations []confirmed
	knownPrinted := map[string]bool{}
	unconfirmed := 0
	tracesValidated := 0
	sampleDiverged := 0
	os.MkdirAll(filepath.Join(verifDir, "replays", id), 0o755)
	for _, key := range gorder {
		g := groups[key]
		// split the group into known and not-known members
		var fresh []sym.Violation
		for _, v := range g.list {
			if kf := matchKnown(known, id, v); kf != nil {
				line := fmt.Sprintf("KNOWN-FINDING: property=%s %s", id, kf.What)
				if !knownPrinted[line] {
					knownPrinted[line] = true
					fmt.Println(line)
				}
				continue
			}
			fresh = append(fresh, v)
		}
		if len(fresh) == 0 {
			continue
		}
		// replay up to 3 members natively; report the first that reproduces
		done := false
		tried := 0
		for _, v := range fresh {
			if tried >= 3 {
				break
			}
			tried++
			path := writeReplayFile(id, v)
			if *noReplay || noReplayKind(spec, v) {
				newViolations = append(newViolations, confirmed{v: v, replay: path, output: "(not replayed)"})
				done = true
				break
			}
			out, ok := rp.replay(v, path)
			for rep := 1; !ok && rep < replayRepeat(spec, v); rep++ {
				out, ok = rp.replay(v, path)
			}
			if ok {
				newViolations = append(newViolations, confirmed{v: v, replay: path, output: out})
				done = true
				break
			}
			fmt.Printf("unconfirmed counterexample (%s %s at %s): native replay says: %s\n", v.Kind, v.ID, v.Site, firstLine(out))
		}
		if !done {
			unconfirmed++
			inconclusive["unconfirmed counterexample: "+key]++
		}
	}

	// ---- validate sample models natively (encoding vs implementation) ----
	nSamples := 2
	if *tier == "thorough" {
		nSamples = 6
	}
	if !*noReplay {
		for _, rep := range reports {
			cnt := 0
			for _, s := range rep.SampleModels {
				if cnt >= nSamples {
					break
				}
				cnt++
				v := sym.Violation{Kind: "sample", ID: s.Reach, Model: s.Model, Harness: rep.Harness, Pkg: rep.Pkg, Bounds: rep.Bounds}
				path := writeReplayFile(id, v)
				out, _ := rp.replayRaw(v, path)
				os.Remove(path)
				stubbed := harnessHasEnvStubs(spec, rep.Harness)
				switch {
				case strings.Contains(out, "VERIF-REPLAY-PASS") && reachedNatively(out, s.Reach):
					tracesValidated++
				case stubbed:
					// the native run uses the real environment (schema library, file system) where the symbolic
					// run used a stub: the two may legitimately take different paths
					sampleDiverged++
				case strings.Contains(out, "VERIF-REPLAY-ASSUMPTION-VIOLATED"):
					inconclusive[fmt.Sprintf("%s: sample model violates an assumption natively (encoding mismatch?): %s", rep.Harness, s.Reach)]++
				default:
					// a sample that fails natively where the symbolic run passed is an encoding mismatch unless it is a known finding
					if !violationKnownForHarness(known, id, rep.Harness) {
						inconclusive[fmt.Sprintf("%s: sample model for %s behaves differently natively: %s", rep.Harness, s.Reach, firstLine(out))]++
						fmt.Printf("diverging sample of %s (reach %s): %s\n  native output: %s\n", rep.Harness, s.Reach, renderModel(s.Model), strings.ReplaceAll(out, "\n", " | "))
					}
				}
			}
		}
	}
	_ = sampleDiverged

	// ---- evidence ----
	ev := buildEvidence(id, *tier, seed, spec, reports, inconclusive, len(newViolations), tracesValidated, unconfirmed, loadTime, time.Since(start), knownPrinted)
	evDir := filepath.Join(verifDir, "evidence")
	if d := os.Getenv("VERIF_EVIDENCE_DIR"); d != "" {
		evDir = d // seed evaluation against a scratch worktree must not overwrite the evidence of the real tree
	}
	os.MkdirAll(evDir, 0o755)
	b, _ := json.MarshalIndent(ev, "", " ")
	os.WriteFile(filepath.Join(evDir, id+".json"), b, 0o644)

	for _, c := range newViolations {
		fmt.Printf("violation: %s %s: %s at %s\n  input: %s\n  native: %s\n", c.v.Kind, c.v.ID, c.v.Msg, c.v.Site, renderModel(c.v.Model), firstLine(c.output))
		fmt.Printf("VIOLATION property=%s replay=%s\n", id, c.replay)
	}
	if len(newViolations) > 0 {
		rp.cleanup()
		cleanupGen()
		os.Exit(1)
	}
	if len(inconclusive) > 0 {
		keys := make([]string, 0, len(inconclusive))
		for k := range inconclusive {
			keys = append(keys, k)
		}
		sort.Strings(keys)
		for _, k := range keys {
			fmt.Printf("INCONCLUSIVE x%d: %s\n", inconclusive[k], k)
		}
		fmt.Printf("check %s inconclusive (no verdict)\n", id)
		rp.cleanup()
		cleanupGen()
		os.Exit(2)
	}
	fmt.Printf("check %s passed (%s tier, %.1fs)\n", id, *tier, time.Since(start).Seconds())
}

// reorder moves flags before positional args so flag.Parse sees them.
func reorder(args []string) []string {
	var flags, pos []string
	for i := 0; i < len(args); i++ {
		a := args[i]
		if strings.HasPrefix(a, "-") {
			flags = append(flags, a)
			if !strings.Contains(a, "=") && i+1 < len(args) && !strings.HasPrefix(args[i+1], "-") && a != "--no-replay" && a != "-no-replay" {
				flags = append(flags, args[i+1])
				i++
			}
		} else {
			pos = append(pos, a)
		}
	}
	return append(flags, pos...)
}

var genDirs []string

func cleanupGen() {
	for _, d := range genDirs {
		os.RemoveAll(d)
	}
}

// reachedNatively: does the "REACHED a;b;c;" line of a native replay list the witness id?
func reachedNatively(out, id string) bool {
	for _, l := range strings.Split(out, "\n") {
		if strings.HasPrefix(l, "REACHED ") {
			for _, x := range strings.Split(strings.TrimPrefix(l, "REACHED "), ";") {
				if strings.TrimSpace(x) == id {
					return true
				}
			}
		}
	}
	return false
}

func fatal2(f string, a ...interface{}) {
	cleanupGen()
	fmt.Fprintf(os.Stderr, f+"\n", a...)
	os.Exit(2)
}

func firstLine(s string) string {
	s = strings.TrimSpace(s)
	for _, l := range strings.Split(s, "\n") {
		if strings.Contains(l, "VERIF-REPLAY") || strings.Contains(l, "panic") || strings.Contains(l, "fatal error") || strings.Contains(l, "TIMEOUT") {
			return l
		}
	}
	if i := strings.IndexByte(s, '\n'); i >= 0 {
		return s[:i]
	}
	return s
}

func siteFunc(site string) string {
	if i := strings.Index(site, " ("); i >= 0 {
		return site[:i]
	}
	return site
}

func renderModel(m map[string]uint64) string {
	r := sym.RenderModel(sym.ModelOrder(m), m)
	b, _ := json.Marshal(r)
	return string(b)
}

func replayRepeat(spec CheckSpec, v sym.Violation) int {
	for _, h := range spec.Harnesses {
		if h.Fn == v.Harness && h.ReplayRepeat > 0 {
			return h.ReplayRepeat
		}
	}
	return 1
}

// harnessHasEnvStubs: the harness replaces part of the environment (anything but the location summary).
func harnessHasEnvStubs(spec CheckSpec, fn string) bool {
	for _, h := range spec.Harnesses {
		if h.Fn != fn {
			continue
		}
		for _, s := range h.StubSets {
			if s != "location" {
				return true
			}
		}
		if len(h.Stubs) > 0 {
			return true
		}
	}
	return false
}

func noReplayKind(spec CheckSpec, v sym.Violation) bool {
	for _, h := range spec.Harnesses {
		if h.Fn == v.Harness {
			for _, k := range h.NoReplayKinds {
				if k == v.Kind {
					return true
				}
			}
			for _, a := range h.NoReplayAsserts {
				if v.Kind == "assert" && a == v.ID {
					return true
				}
			}
		}
	}
	return false
}

func matchKnown(known []KnownFinding, prop string, v sym.Violation) *KnownFinding {
	for i := range known {
		k := &known[i]
		if k.Status != "known" || k.Property != prop {
			continue
		}
		if k.Harness != "" && k.Harness != v.Harness {
			continue
		}
		if k.Kind != "" && k.Kind != v.Kind {
			continue
		}
		if k.ID != "" && k.ID != v.ID {
			continue
		}
		if k.SiteContains != "" && !strings.Contains(v.Site, k.SiteContains) && !stackContains(v.Stack, k.SiteContains) {
			continue
		}
		if k.MsgContains != "" && !strings.Contains(v.Msg, k.MsgContains) {
			continue
		}
		if k.NoteContains != "" {
			found := false
			for _, nv := range v.Notes {
				if strings.Contains(nv, k.NoteContains) {
					found = true
				}
			}
			if !found {
				continue
			}
		}
		if k.InputRegex != "" {
			re, err := regexp.Compile(k.InputRegex)
			if err != nil || !re.MatchString(renderModel(v.Model)) {
				continue
			}
		}
		return k
	}
	return nil
}

func stackContains(st []string, s string) bool {
	for _, f := range st {
		if strings.Contains(f, s) {
			return true
		}
	}
	return false
}

func violationKnownForHarness(known []KnownFinding, prop, harness string) bool {
	for _, k := range known {
		if k.Status == "known" && k.Property == prop && (k.Harness == "" || k.Harness == harness) {
			return true
		}
	}
	return false
}

type replayDoc struct {
	Property string            `json:"property"`
	Harness  string            `json:"harness"`
	Pkg      string            `json:"pkg"`
	Kind     string            `json:"kind"`
	ID       string            `json:"id"`
	Msg      string            `json:"msg"`
	Site     string            `json:"site"`
	Stack    []string          `json:"stack,omitempty"`
	Input    map[string]string `json:"input"`
	Vars     map[string]uint64 `json:"vars"`
	Bounds   map[string]int    `json:"bounds"`
	Notes    map[string]string `json:"notes,omitempty"`
}

func writeReplayFile(prop string, v sym.Violation) string {
	doc := replayDoc{Property: prop, Harness: v.Harness, Pkg: v.Pkg, Kind: v.Kind, ID: v.ID, Msg: v.Msg, Site: v.Site,
		Stack: v.Stack, Vars: v.Model, Bounds: v.Bounds, Notes: v.Notes,
		Input: sym.RenderModel(sym.ModelOrder(v.Model), v.Model)}
	b, _ := json.MarshalIndent(doc, "", " ")
	h := fnv32(string(b))
	dir := filepath.Join(verifDir, "replays", prop)
	os.MkdirAll(dir, 0o755)
	path := filepath.Join(dir, fmt.Sprintf("%s-%s-%08x.json", v.Harness, sanitize(v.Kind+"-"+v.ID), h))
	os.WriteFile(path, b, 0o644)
	return path
}

func sanitize(s string) string {
	return strings.Map(func(r rune) rune {
		if (r >= 'a' && r <= 'z') || (r >= 'A' && r <= 'Z') || (r >= '0' && r <= '9') || r == '-' || r == '.' {
			return r
		}
		return '_'
	}, s)
}

func fnv32(s string) uint32 {
	h := uint32(2166136261)
	for i := 0; i < len(s); i++ {
		h ^= uint32(s[i])
		h *= 16777619
	}
	return h
}

// ---- native replay ----

type replayer struct {
	repo    string
	scratch string
	bins    map[string]string // pkg -> test binary
	errs    map[string]string
}

func newReplayer(repo string) *replayer {
	return &replayer{repo: repo, bins: map[string]string{}, errs: map[string]string{}}
}

func (r *replayer) cleanup() {
	if r.scratch != "" {
		os.RemoveAll(r.scratch)
	}
}

func goEnv() []string {
	env := os.Environ()
	env = append(env, "GOFLAGS=-mod=mod", "GOPROXY=off", "GOSUMDB=off", "GOTOOLCHAIN=local", "CGO_ENABLED=0")
	return env
}

// build compiles the native test binary of pkg with the harness overlaid.
func (r *replayer) build(pkg string) (string, error) {
	if b, ok := r.bins[pkg]; ok {
		if b == "" {
			return "", fmt.Errorf("%s", r.errs[pkg])
		}
		return b, nil
	}
	if r.scratch == "" {
		d, err := os.MkdirTemp("", "gosym-replay-")
		if err != nil {
			return "", err
		}
		r.scratch = d
	}
	hdir := filepath.Join(verifDir, "harness")
	replace := map[string]string{}
	var harnessFns []string
	for _, extra := range extraHarnessDirs {
		filepath.Walk(extra, func(p string, info os.FileInfo, err error) error {
			if err != nil || info.IsDir() || !strings.HasSuffix(p, ".go") {
				return nil
			}
			rel, _ := filepath.Rel(extra, p)
			replace[filepath.Join(r.repo, rel)] = p
			return nil
		})
	}
	filepath.Walk(hdir, func(p string, info os.FileInfo, err error) error {
		if err != nil || info.IsDir() || !strings.HasSuffix(p, ".go") {
			return nil
		}
		if _, skip := droppedHarnessFiles[filepath.Base(p)]; skip {
			return nil
		}
		rel, _ := filepath.Rel(hdir, p)
		dir := filepath.Dir(rel)
		if dir == "verifrt" || dir == "veriflib" {
			replace[filepath.Join(r.repo, "internal", rel)] = p
			return nil
		}
		replace[filepath.Join(r.repo, rel)] = p
		if dir == pkg {
			b, _ := os.ReadFile(p)
			for _, m := range regexp.MustCompile(`(?m)^func (VerifH_\w+)\(\)`).FindAllStringSubmatch(string(b), -1) {
				harnessFns = append(harnessFns, m[1])
			}
		}
		return nil
	})
	pkgName := filepath.Base(pkg)
	// package clause of the target package
	if b, err := os.ReadFile(firstGoFile(filepath.Join(r.repo, pkg))); err == nil {
		if m := regexp.MustCompile(`(?m)^package (\w+)`).FindSubmatch(b); m != nil {
			pkgName = string(m[1])
		}
	}
	var sb strings.Builder
	fmt.Fprintf(&sb, "package %s\n\nimport (\n\t\"fmt\"\n\t\"strings\"\n\t\"testing\"\n\n\t\"%s/internal/verifrt\"\n)\n\n", pkgName, moduleOf(r.repo))
	sb.WriteString("func TestVerifReplay(t *testing.T) {\n\tout := verifrt.RunReplay(map[string]func(){\n")
	for _, f := range harnessFns {
		fmt.Fprintf(&sb, "\t\t%q: %s,\n", f, f)
	}
	sb.WriteString("\t})\n\tfmt.Println(out)\n\tfmt.Println(\"REACHED \" + strings.Join(verifrt.Reached, \";\") + \";\")\n}\n")
	testFile := filepath.Join(r.scratch, sanitize(pkg)+"_replay_test.go")
	os.WriteFile(testFile, []byte(sb.String()), 0o644)
	replace[filepath.Join(r.repo, pkg, "zz_verif_replay_test.go")] = testFile
	ovb, _ := json.Marshal(map[string]interface{}{"Replace": replace})
	ovFile := filepath.Join(r.scratch, sanitize(pkg)+"_overlay.json")
	os.WriteFile(ovFile, ovb, 0o644)
	bin := filepath.Join(r.scratch, sanitize(pkg)+".test")
	cmd := exec.Command("go", "test", "-c", "-vet=off", "-overlay", ovFile, "-o", bin, "./"+pkg)
	cmd.Dir = r.repo
	cmd.Env = goEnv()
	out, err := cmd.CombinedOutput()
	if err != nil {
		r.bins[pkg] = ""
		r.errs[pkg] = "native build failed: " + string(out)
		return "", fmt.Errorf("%s", r.errs[pkg])
	}
	r.bins[pkg] = bin
	return bin, nil
}

func firstGoFile(dir string) string {
	es, _ := os.ReadDir(dir)
	for _, e := range es {
		if strings.HasSuffix(e.Name(), ".go") && !strings.HasSuffix(e.Name(), "_test.go") {
			return filepath.Join(dir, e.Name())
		}
	}
	return ""
}

func moduleOf(repo string) string {
	b, _ := os.ReadFile(filepath.Join(repo, "go.mod"))
	if m := regexp.MustCompile(`(?m)^module (\S+)`).FindSubmatch(b); m != nil {
		return string(m[1])
	}
	return ""
}

// replayRaw runs the replay file natively and returns the output.
func (r *replayer) replayRaw(v sym.Violation, path string) (string, error) {
	bin, err := r.build(v.Pkg)
	if err != nil {
		return err.Error(), err
	}
	// ulimit -s caps the stack so unbounded recursion dies quickly; timeout catches hangs
	// everything the native run creates with os.MkdirTemp("") (staged project directories) lands under the
	// replayer's scratch directory and disappears with it
	tmpd := filepath.Join(r.scratch, "tmp")
	os.MkdirAll(tmpd, 0o755)
	script := fmt.Sprintf("ulimit -v 8000000; export TMPDIR=%q; cd %q && VERIF_REPLAY=%q timeout -s KILL 30 %q -test.run '^TestVerifReplay$' -test.count=1 -test.timeout 25s 2>&1 | head -c 20000; echo EXIT=${PIPESTATUS[0]}",
		tmpd, filepath.Join(r.repo, v.Pkg), path, bin)
	cmd := exec.Command("bash", "-c", script)
	cmd.Env = goEnv()
	out, _ := cmd.CombinedOutput()
	s := string(out)
	if strings.Contains(s, "EXIT=137") || strings.Contains(s, "test timed out") {
		s += "\nVERIF-REPLAY-TIMEOUT"
	}
	return s, nil
}

// replay decides whether the violation reproduces natively.
func (r *replayer) replay(v sym.Violation, path string) (string, bool) {
	out, err := r.replayRaw(v, path)
	if err != nil {
		return out, false
	}
	switch v.Kind {
	case "assert":
		for _, l := range strings.Split(out, "\n") {
			if strings.HasPrefix(l, "VERIF-REPLAY-FAIL ") {
				for _, id := range strings.Split(strings.TrimPrefix(l, "VERIF-REPLAY-FAIL "), ",") {
					if strings.TrimSpace(id) == v.ID {
						return out, true
					}
				}
			}
		}
		return out, false
	case "panic":
		return out, strings.Contains(out, "VERIF-REPLAY-PANIC") || strings.Contains(out, "fatal error:") || (strings.Contains(out, "panic:") && !strings.Contains(out, "VERIF-REPLAY-PASS"))
	case "budget":
		return out, strings.Contains(out, "VERIF-REPLAY-TIMEOUT") || strings.Contains(out, "stack overflow") || strings.Contains(out, "goroutine stack exceeds")
	case "swallowed-fault":
		return out, strings.Contains(out, "VERIF-REPLAY-FAIL")
	}
	return out, false
}

// ---- evidence ----

func buildEvidence(id, tier string, seed int, spec CheckSpec, reports []*sym.Report, inconclusive map[string]int,
	nViol, tracesValidated, unconfirmed int, loadTime, wall time.Duration, knownPrinted map[string]bool) map[string]interface{} {
	paths, queries, steps, domDecided, assertPaths := 0, 0, int64(0), 0, 0
	obligations, discharged, trivial, violated, unknown := 0, 0, 0, 0, 0
	reachHit, reachTotal := 0, 0
	var solverTime time.Duration
	funcs := map[string]map[string]bool{}
	var samples []interface{}
	var perHarness []interface{}
	mapSites := map[string]bool{}
	for _, rep := range reports {
		paths += rep.Paths
		queries += rep.Queries
		steps += rep.Steps
		domDecided += rep.DomDecided
		assertPaths += rep.AssertPaths
		solverTime += rep.SolverTime
		asserts := map[string]interface{}{}
		for aid, a := range rep.Asserts {
			if !strings.HasPrefix(aid, id+".") {
				continue
			}
			obligations += a.Checked
			discharged += a.Discharged
			trivial += a.Trivial
			violated += a.Violated
			unknown += a.Unknown
			asserts[aid] = a
		}
		for _, n := range rep.Reach {
			reachTotal++
			if n > 0 {
				reachHit++
			}
		}
		for f, k := range rep.Funcs {
			if funcs[k] == nil {
				funcs[k] = map[string]bool{}
			}
			funcs[k][f] = true
		}
		for s := range rep.MapRangeSites {
			mapSites[s] = true
		}
		for i, s := range rep.Samples {
			if i < 3 {
				samples = append(samples, map[string]interface{}{"harness": rep.Harness, "input": s})
			}
		}
		perHarness = append(perHarness, map[string]interface{}{
			"harness": rep.Pkg + "." + rep.Harness, "bounds": rep.Bounds, "paths": rep.Paths,
			"solver_queries": rep.Queries, "sat": rep.SolverSat, "unsat": rep.SolverUnsat, "unknown": rep.SolverUnknown,
			"solver_s": rep.SolverTime.Seconds(), "wall_s": rep.Wall.Seconds(), "assertions": asserts, "reach": rep.Reach,
			"violations_found": len(rep.Violations), "instructions": rep.Steps,
		})
	}
	fl := map[string][]string{}
	for k, set := range funcs {
		for f := range set {
			fl[k] = append(fl[k], f)
		}
		sort.Strings(fl[k])
	}
	if len(samples) == 0 {
		samples = append(samples, "no reach sample recorded")
	}
	var incList []string
	for k, n := range inconclusive {
		incList = append(incList, fmt.Sprintf("x%d %s", n, k))
	}
	sort.Strings(incList)
	var knownList []string
	for k := range knownPrinted {
		knownList = append(knownList, k)
	}
	sort.Strings(knownList)
	var sites []string
	for s := range mapSites {
		sites = append(sites, s)
	}
	sort.Strings(sites)
	nontrivial := assertPaths
	_ = nontrivial
	cov := map[string]interface{}{
		"explanation":    "Bounded symbolic execution of the real Go code (SSA rebuilt from /repo's working tree on this run) with z3 deciding every branch-feasibility and assertion query; inputs within the stated bounds are symbolic bit-vectors, so each discharged obligation holds for all of them; counterexamples are replayed against the natively compiled code before being reported.",
		"states":         paths,
		"transitions":    queries + domDecided,
		"solver_queries": queries,
		"branch_decisions_by_byte_domain_enumeration": domDecided,
		"traces_validated_against_impl":               tracesValidated,
		"evaluations":                                 paths,
		"distinct_nontrivial":                         nontrivial,
		"rule":                                        "evaluations = feasible execution paths explored (each path is a distinct class of inputs characterised by its path condition, all byte values of the class covered at once); distinct_nontrivial = those paths on which at least one assertion of this property was evaluated; an assertion instance is discharged either by an unsat answer for PC and not(c), or because c folded to true under a path condition whose every branch was decided by the solver (or by exhaustive evaluation over a single byte's 256 values)",
		"obligations":                                 obligations + trivial,
		"discharged":                                  discharged + trivial,
		"discharged_by_solver_query":                  discharged,
		"trivially_true":                              trivial,
		"violated":                                    violated,
		"solver_unknown":                              unknown,
		"reach_witnesses":                             fmt.Sprintf("%d/%d satisfied", reachHit, reachTotal),
		"checker_cmd":                                 fmt.Sprintf("/verif/bin/gosym check %s --tier %s", id, tier),
		"trusted_base":                                []string{"go/types + go/ssa (x/tools v0.29.0) as the meaning of the source", "gosym interpreter, intrinsics and term builder", "z3 4.8.12", "harness reference oracles and stub contracts (listed under functions_encoded / assumptions)", "native Go toolchain for replay"},
		"samples":                                     samples,
		"exhaustive":                                  len(inconclusive) == 0,
		"harness_runs":                                perHarness,
		"functions_encoded":                           fl,
		"solver_time_s":                               solverTime.Seconds(),
		"instructions":                                steps,
		"load_and_ssa_build_s":                        loadTime.Seconds(),
		"inconclusive":                                incList,
		"unconfirmed_counterexamples":                 unconfirmed,
		"known_findings_seen":                         knownList,
		"not_decided":                                 spec.NotDecided,
		"paths_not_executed":                          toleratedNotes,
		"map_range_sites_explored_in_all_orders":      sites,
	}
	ev := map[string]interface{}{
		"property_id": id,
		"tier":        tier,
		"seed":        seed,
		"level":       "model_checking",
		"coverage":    cov,
		"assumptions": spec.Assumptions,
		"wall_s":      wall.Seconds(),
		"violations":  nViol,
	}
	return ev
}
