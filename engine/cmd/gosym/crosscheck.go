package main

import (
	"bufio"
	"encoding/json"
	"flag"
	"fmt"
	"os"
	"os/exec"
	"path/filepath"
	"strings"
	"time"

	"gosym/sym"
)

// cmdCrossCheck: re-decide a sample of the queries z3 4.8.12 answered during a
// check with cvc5 and z3 5.x (second opinion on solver and on the SMT-LIB encoding).
func cmdCrossCheck(args []string) {
	fs := flag.NewFlagSet("crosscheck", flag.ExitOnError)
	every := fs.Int("every", 20, "log every n-th query")
	maxPaths := fs.Int("maxpaths", 3000, "path cap per harness")
	repo := fs.String("repo", "/repo", "repository")
	fs.Parse(reorder(args))
	ids := fs.Args()
	var reg map[string]CheckSpec
	if err := loadJSON(filepath.Join(verifDir, "checks.json"), &reg); err != nil {
		fatal2("%v", err)
	}
	if len(ids) == 0 {
		for id := range reg {
			ids = append(ids, id)
		}
	}
	ov, err := loadOverlay(*repo, filepath.Join(verifDir, "harness"))
	if err != nil {
		fatal2("%v", err)
	}
	eng, err := sym.Load(*repo, ov)
	if err != nil {
		fatal2("%v", err)
	}
	var sets struct {
		Stubs map[string]map[string]string `json:"stubsets"`
		Tabs  map[string]struct {
			Funcs  []string       `json:"funcs"`
			Bounds map[string]int `json:"bounds"`
		} `json:"tabsets"`
	}
	loadJSON(filepath.Join(verifDir, "checksets.json"), &sets)
	tmp, _ := os.MkdirTemp("", "gosym-cross-")
	defer os.RemoveAll(tmp)
	result := map[string]interface{}{}
	total, agreeC, agreeZ, disagree := 0, 0, 0, 0
	for _, id := range ids {
		spec := reg[id]
		for hi, h := range spec.Harnesses {
			bounds := map[string]int{}
			for k, v := range h.Quick {
				bounds[k] = v
			}
			if len(h.Instances) > 0 {
				for k, v := range h.Instances[0] {
					bounds[k] = v
				}
			}
			stubs := map[string]string{}
			for _, name := range h.StubSets {
				for k, v := range sets.Stubs[name] {
					stubs[k] = v
				}
			}
			for k, v := range h.Stubs {
				stubs[k] = v
			}
			tabulate := append([]string{}, h.Tabulate...)
			for _, name := range h.TabSets {
				tabulate = append(tabulate, sets.Tabs[name].Funcs...)
				for k, v := range sets.Tabs[name].Bounds {
					bounds[k] = v
				}
			}
			logf := filepath.Join(tmp, fmt.Sprintf("%s_%d.smt2", id, hi))
			cfg := sym.Config{Pkg: h.Pkg, Harness: h.Fn, Bounds: bounds, Stubs: stubs, Tabulate: tabulate, MapOrderAny: h.MapOrder,
				LockMonitor: h.LockMonitor, FullSchemaLib: h.FullSchemaLib, MaxPaths: *maxPaths, LogQueries: logf, LogEvery: *every, Workers: 16}
			if _, err := eng.Run(cfg); err != nil {
				fmt.Printf("%s %s: %v\n", id, h.Fn, err)
				continue
			}
			expect := readExpectations(logf)
			if len(expect) == 0 {
				continue
			}
			c := runSolver("cvc5", []string{"--incremental", "--lang=smt2", "--tlimit-per=20000"}, logf)
			z := runSolver("z3-new", []string{"-in", "-T:600"}, logf)
			for i, e := range expect {
				total++
				okC := i < len(c) && c[i] == e
				okZ := i < len(z) && z[i] == e
				if okC {
					agreeC++
				}
				if okZ {
					agreeZ++
				}
				if (i < len(c) && (c[i] == "sat" || c[i] == "unsat") && c[i] != e) || (i < len(z) && (z[i] == "sat" || z[i] == "unsat") && z[i] != e) {
					disagree++
					fmt.Printf("DISAGREEMENT %s %s query %d: z3-4.8.12=%s cvc5=%v z3-new=%v\n", id, h.Fn, i, e, at(c, i), at(z, i))
				}
			}
			fmt.Printf("%s %s: %d queries re-decided, cvc5 agrees on %d, z3-new on %d\n", id, h.Fn, len(expect), countAgree(c, expect), countAgree(z, expect))
		}
	}
	result["queries"] = total
	result["cvc5_agree"] = agreeC
	result["z3new_agree"] = agreeZ
	result["disagreements"] = disagree
	result["properties"] = ids
	result["at"] = time.Now().UTC().Format(time.RFC3339)
	result["note"] = "every n-th feasibility / assertion query answered sat or unsat by z3 4.8.12 during the quick check (first instance of each harness, path cap) was written as a standalone QF_BV script and re-decided by cvc5 1.0 and z3 5.x; a solver answering unknown/timeout is not counted as agreeing"
	b, _ := json.MarshalIndent(result, "", " ")
	os.WriteFile(filepath.Join(verifDir, "evidence", "crosscheck.json"), b, 0o644)
	fmt.Println(string(b))
	if disagree > 0 {
		os.Exit(1)
	}
}

func at(a []string, i int) string {
	if i < len(a) {
		return a[i]
	}
	return "-"
}

func countAgree(got, want []string) int {
	n := 0
	for i := range want {
		if i < len(got) && got[i] == want[i] {
			n++
		}
	}
	return n
}

func readExpectations(path string) []string {
	f, err := os.Open(path)
	if err != nil {
		return nil
	}
	defer f.Close()
	var out []string
	sc := bufio.NewScanner(f)
	sc.Buffer(make([]byte, 1<<20), 1<<26)
	for sc.Scan() {
		l := sc.Text()
		if strings.HasPrefix(l, "; expect ") {
			out = append(out, strings.Fields(l)[2])
		}
	}
	return out
}

func runSolver(bin string, args []string, file string) []string {
	f, err := os.Open(file)
	if err != nil {
		return nil
	}
	defer f.Close()
	cmd := exec.Command(bin, args...)
	cmd.Stdin = f
	out, _ := cmd.Output()
	var res []string
	for _, l := range strings.Split(string(out), "\n") {
		l = strings.TrimSpace(l)
		switch l {
		case "sat", "unsat", "unknown", "timeout":
			res = append(res, l)
		}
	}
	return res
}
